package engc

import (
	"encoding/json"
	"fmt"

	"verif/sim/kernel"
)

// Gen derives the plan of run `seed`.
func Gen(prop, tier string, seed uint64) *kernel.Plan {
	g := kernel.NewRng(seed).Derive("plan")
	kind := []string{"counter", "counter", "map", "list", "doc"}[g.Intn(5)]
	cfg := Config{Kind: kind, Sched: g.U64()}
	cfg.Realtime = g.Chance(1, 3) || prop == "C18"
	nTasks := g.Range(2, 4)
	maxCalls := 6
	if tier == "thorough" {
		nTasks = g.Range(2, 8)
		maxCalls = 12
	}
	var evs []Ev
	vn := 0
	for t := 0; t < nTasks; t++ {
		for c := g.Range(2, maxCalls); c > 0; c-- {
			e := Ev{Task: t}
			mk := func() Ev {
				vn++
				switch kind {
				case "counter":
					if g.Chance(1, 5) {
						return Ev{Task: t, Op: "get"}
					}
					return Ev{Task: t, Op: "inc", Delta: int32(1 << uint(g.Intn(20)))}
				case "map":
					switch g.Intn(6) {
					case 0:
						return Ev{Task: t, Op: "mget", K: fmt.Sprintf("k%d", g.Intn(2))}
					case 1:
						return Ev{Task: t, Op: "rm", K: fmt.Sprintf("k%d", g.Intn(2))}
					}
					return Ev{Task: t, Op: "put", K: fmt.Sprintf("k%d", g.Intn(2)), V: fmt.Sprintf("v%d", vn)}
				}
				if kind == "doc" {
					if g.Chance(1, 3) {
						return Ev{Task: t, Op: "dget"}
					}
					return Ev{Task: t, Op: "dput", K: fmt.Sprintf("k%d", g.Intn(3)), V: fmt.Sprintf("v%d", vn)}
				}
				switch g.Intn(5) {
				case 0:
					return Ev{Task: t, Op: "ldel"}
				case 1:
					return Ev{Task: t, Op: "lget"}
				}
				return Ev{Task: t, Op: "ins", V: fmt.Sprintf("e%d", vn)}
			}
			if g.Chance(1, 5) {
				e.Op = "tx"
				e.Fail = g.Chance(1, 4)
				if kind == "counter" {
					d := int32(1 << uint(g.Intn(20)))
					e.Body = []Ev{{Task: t, Op: "inc", Delta: d}, {Task: t, Op: "inc", Delta: -d}}
					if g.Chance(1, 2) {
						e.Body = append(e.Body, Ev{Task: t, Op: "inc", Delta: int32(1 << uint(g.Intn(20)))})
					}
				} else {
					for k := g.Range(1, 3); k > 0; k-- {
						b := mk()
						if kind == "doc" {
							b = Ev{Task: t, Op: "dput", K: fmt.Sprintf("k%d", g.Intn(3)), V: fmt.Sprintf("v%d", vn)}
						} else if b.Op == "mget" || b.Op == "rm" || b.Op == "get" || b.Op == "ldel" || b.Op == "lget" {
							b = Ev{Task: t, Op: "put", K: fmt.Sprintf("k%d", g.Intn(2)), V: fmt.Sprintf("v%d", vn)}
							if kind == "list" {
								b = Ev{Task: t, Op: "ins", V: fmt.Sprintf("e%d", vn)}
							}
						}
						e.Body = append(e.Body, b)
					}
				}
			} else {
				e = mk()
			}
			evs = append(evs, e)
		}
	}
	// the sync task (not for C18: its statement is about realtime clients that "only perform local
	// operations"; an operation issued while an explicit Sync() of the application holds the delivery
	// semaphore stays in the buffer until the next operation or Sync - SyncAll does not re-deliver -
	// which is outside that statement)
	st := nTasks
	nSync := g.Range(1, 4)
	if prop == "C18" {
		nSync = 0
	}
	for n := nSync; n > 0; n-- {
		e := Ev{Task: st, Op: "sync"}
		for k := g.Intn(3); k > 0; k-- {
			e.F = append(e.F, int32(1<<uint(20+g.Intn(8))))
		}
		evs = append(evs, e)
	}
	cb, _ := json.Marshal(cfg)
	raw := make([]json.RawMessage, len(evs))
	for i, e := range evs {
		raw[i], _ = json.Marshal(e)
	}
	return &kernel.Plan{Engine: "C", Property: prop, Seed: seed, Config: cb, Events: raw}
}

// Simplify: candidates with another scheduler seed are not simpler; only event removal (ddmin) is used.
func Simplify(p *kernel.Plan) []*kernel.Plan { return nil }
