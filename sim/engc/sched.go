package engc

import (
	"fmt"
	"os"
	"runtime"
	"strings"
	"sync"

	"verif/sim/kernel"
)

type task struct {
	gid     uint64 // goroutine of the task: scheduling points reached by any other goroutine pass through
	id      int
	name    string
	w       word
	fn      func()
	done    bool
	waiting bool // spinning on a lock held by somebody else
	spawned bool // a goroutine the library started (hooks WillSpawn/GoStart/GoEnd)
	panicV  string
	panicAt string
}

type sched struct {
	tasks   []*task
	cur     *task
	main    word
	rng     *kernel.Rng
	active  bool
	steps   int
	stall   int // consecutive decisions in which the chosen task only found its lock taken
	maxStep int
	sites   []string
	traceH  uint64
	dead    bool
	over    bool
	failedSince map[*task]bool // tasks whose last lock attempt failed, since the last progress of anybody
	pendingW map[*sync.RWMutex]int // tasks waiting for the write lock: a blocked Lock() excludes new readers (sync.RWMutex)
	thin    int // one in `thin` inserted points is a real scheduling point (per run)
}

//go:norace
func newSched(seed uint64) *sched {
	s := &sched{rng: kernel.NewRng(seed), traceH: 1469598103934665603, maxStep: 20000, pendingW: map[*sync.RWMutex]int{}, failedSince: map[*task]bool{}}
	s.thin = []int{2, 4, 8, 8, 16, 32}[s.rng.Intn(6)]
	return s
}

//go:norace
func (s *sched) spawn(name string, fn func()) *task {
	t := &task{id: len(s.tasks), name: name, fn: fn}
	s.tasks = append(s.tasks, t)
	ready := make(chan struct{})
	go func() {
		t.gid = curGID() // known before anybody can be taken for this task
		close(ready)
		s.body(t)
	}()
	<-ready
	return t
}

//go:norace
func (s *sched) body(t *task) {
	t.w.park()
	func() {
		defer func() {
			if x := recover(); x != nil {
				t.panicV = fmt.Sprint(x)
				t.panicAt = panicSite()
			}
		}()
		t.fn()
	}()
	if traceSites {
		println("   ", t.name, "ends")
	}
	t.done = true
	s.stall, s.failedSince = 0, map[*task]bool{}
	s.main.unpark()
}

// run lets the tasks run one at a time until all are done, a deadlock is found or the step cap is hit.
//
//go:norace
func (s *sched) run() {
	s.active = true
	for {
		var live []*task
		for _, t := range s.tasks {
			if !t.done {
				live = append(live, t)
			}
		}
		if len(live) == 0 {
			break
		}
		allWaiting := true
		for _, t := range live {
			if !t.waiting {
				allWaiting = false
			}
		}
		// deadlock: every live task has tried for its lock and failed since anything last changed (a
		// success of anybody, or somebody finishing, clears the set), so no further attempt can succeed
		for _, t := range live {
			if !s.failedSince[t] {
				allWaiting = false
			}
		}
		if allWaiting && s.stall > 4*len(live)+8 {
			s.dead = true // everybody waits for a lock nobody will release
			if traceSites {
				buf := make([]byte, 1<<18)
				n := runtime.Stack(buf, true)
				println(string(buf[:n]))
			}
			break
		}
		if s.steps >= s.maxStep {
			s.over = true
			break
		}
		t := live[s.rng.Intn(len(live))]
		if !t.waiting {
			s.stall, s.failedSince = 0, map[*task]bool{} // somebody who is not waiting for the lock makes progress
		}
		s.steps++
		s.mixInt(uint64(t.id))
		s.cur = t
		if traceSites {
			println("  pick", t.name, "waiting", t.waiting)
		}
		t.w.unpark()
		s.main.park()
	}
	s.active = false
}

// yield is called by the running task at a scheduling point.
//
//go:norace
func (s *sched) yield(site string) {
	if !s.active || s.cur == nil {
		return
	}
	t := s.cur
	if curGID() != t.gid {
		return // a goroutine the library started by itself (handlers): not a task
	}
	if s.thin > 1 && len(site) > 2 && site[0] == 'i' && site[1] == ':' {
		// Inserted points (cmd/instr) are everywhere; handing the baton over at each of them would make
		// runs an order of magnitude longer. The running task - the only one running, so the draw is
		// part of the deterministic schedule - turns one in `thin` of them into a real scheduling point.
		if s.rng.Intn(s.thin) != 0 {
			return
		}
	}
	s.mixStr(site)
	if traceSites {
		println("  ", t.name, site)
	}
	s.main.unpark()
	t.w.park()
}

var traceSites = os.Getenv("VERIF_TRACE_SITES") != ""

// beforeLock waits (yielding) until the lock can be taken; then the caller's own Lock() cannot block.
//
//go:norace
func (s *sched) beforeLock(mu interface{}, write bool) {
	if !s.active || s.cur == nil {
		return
	}
	t := s.cur
	m, ok := mu.(*sync.RWMutex)
	if !ok {
		return
	}
	s.yield("lock.before")
	pending := false
	for {
		var got bool
		if write {
			got = m.TryLock()
			if got {
				m.Unlock()
			}
		} else if s.pendingW[m] > 0 {
			// sync.RWMutex: "a blocked Lock call excludes new readers from acquiring the lock" - also a
			// reader that already holds a read lock and asks again
			got = false
		} else {
			got = m.TryRLock()
			if got {
				m.RUnlock()
			}
		}
		if got {
			if pending {
				s.pendingW[m]--
			}
			t.waiting = false
			s.stall, s.failedSince = 0, map[*task]bool{}
			return
		}
		if write && !pending {
			pending = true
			s.pendingW[m]++
		}
		t.waiting = true
		s.failedSince[t] = true
		s.stall++
		s.yield("lock.wait")
		if s.dead || s.over {
			// the run is being abandoned; leave the goroutine parked for ever is not possible, so bail out by panicking
			panic(abandon{})
		}
	}
}

// beforeTry is beforeLock for any lock object: try reports whether it could be taken right now.
//
//go:norace
func (s *sched) beforeTry(try func() bool) {
	if !s.active || s.cur == nil {
		return
	}
	t := s.cur
	if curGID() != t.gid {
		return
	}
	for {
		if try() {
			t.waiting = false
			s.stall, s.failedSince = 0, map[*task]bool{}
			return
		}
		t.waiting = true
		s.failedSince[t] = true
		s.stall++
		s.yield("lock.wait")
		if s.dead || s.over {
			panic(abandon{})
		}
	}
}

// willSpawn is called by the running task right before a `go` statement of the library: the new
// goroutine becomes a task (it does not run before the scheduler picks it).
//
//go:norace
func (s *sched) willSpawn() uint64 {
	if !s.active || s.cur == nil {
		return 0
	}
	if curGID() != s.cur.gid {
		return 0
	}
	t := &task{id: len(s.tasks), name: fmt.Sprintf("g%d", len(s.tasks)), spawned: true}
	s.tasks = append(s.tasks, t)
	s.mixStr("spawn")
	if traceSites {
		println("   ", s.cur.name, "spawns", t.name)
	}
	return uint64(t.id) + 1
}

// goStart is the first thing a goroutine started by the library does: wait for its turn.
//
//go:norace
func (s *sched) goStart(id uint64) {
	if id == 0 || int(id-1) >= len(s.tasks) {
		return
	}
	t := s.tasks[id-1]
	t.gid = curGID()
	t.w.park()
	if s.dead || s.over {
		panic(abandon{})
	}
}

// goDone is the last thing it does (deferred with the recovered panic value, if any).
//
//go:norace
func (s *sched) goDone(x interface{}) {
	t := s.cur
	if t == nil || !t.spawned || curGID() != t.gid {
		if x != nil {
			panic(x)
		}
		return
	}
	if x != nil {
		if _, ok := x.(abandon); !ok {
			t.panicV = fmt.Sprint(x)
			t.panicAt = "goroutine started by the library"
		}
	}
	t.done = true
	s.stall, s.failedSince = 0, map[*task]bool{}
	s.main.unpark()
}

// curGID reads the id of the calling goroutine from its stack header ("goroutine 123 [").
//
//go:norace
func curGID() uint64 {
	var buf [40]byte
	n := runtime.Stack(buf[:], false)
	var id uint64
	for i := len("goroutine "); i < n && buf[i] >= '0' && buf[i] <= '9'; i++ {
		id = id*10 + uint64(buf[i]-'0')
	}
	return id
}

type abandon struct{}

func panicSite() string {
	pcs := make([]uintptr, 64)
	n := runtime.Callers(3, pcs)
	frames := runtime.CallersFrames(pcs[:n])
	for {
		fr, more := frames.Next()
		if strings.Contains(fr.Function, "orda-io/orda/") {
			fn := fr.Function
			if i := strings.LastIndex(fn, "/"); i >= 0 {
				fn = fn[i+1:]
			}
			return fn
		}
		if !more {
			break
		}
	}
	return "unknown"
}

// the trace hash is maintained here, in uninstrumented code: it is touched by every task

//go:norace
func (s *sched) mixInt(v uint64) {
	s.traceH ^= v + 0x9e3779b97f4a7c15 + (s.traceH << 6) + (s.traceH >> 2)
}

//go:norace
func (s *sched) mixStr(str string) {
	h := uint64(1469598103934665603)
	for i := 0; i < len(str); i++ {
		h ^= uint64(str[i])
		h *= 1099511628211
	}
	s.mixInt(h)
}
