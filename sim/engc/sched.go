package engc

import (
	"fmt"
	"runtime"
	"strings"
	"sync"

	"verif/sim/kernel"
)

type task struct {
	id      int
	name    string
	w       word
	fn      func()
	done    bool
	waiting bool // spinning on a lock held by somebody else
	panicV  string
	panicAt string
}

type sched struct {
	tasks   []*task
	cur     *task
	main    word
	rng     *kernel.Rng
	active  bool
	steps   int
	stall   int // consecutive decisions in which the chosen task only found its lock taken
	maxStep int
	sites   []string
	traceH  uint64
	dead    bool
	over    bool
}

//go:norace
func newSched(seed uint64) *sched {
	return &sched{rng: kernel.NewRng(seed), traceH: 1469598103934665603, maxStep: 20000}
}

//go:norace
func (s *sched) spawn(name string, fn func()) *task {
	t := &task{id: len(s.tasks), name: name, fn: fn}
	s.tasks = append(s.tasks, t)
	go s.body(t)
	return t
}

//go:norace
func (s *sched) body(t *task) {
	t.w.park()
	func() {
		defer func() {
			if x := recover(); x != nil {
				t.panicV = fmt.Sprint(x)
				t.panicAt = panicSite()
			}
		}()
		t.fn()
	}()
	t.done = true
	s.stall = 0
	s.main.unpark()
}

// run lets the tasks run one at a time until all are done, a deadlock is found or the step cap is hit.
//
//go:norace
func (s *sched) run() {
	s.active = true
	for {
		var live []*task
		for _, t := range s.tasks {
			if !t.done {
				live = append(live, t)
			}
		}
		if len(live) == 0 {
			break
		}
		allWaiting := true
		for _, t := range live {
			if !t.waiting {
				allWaiting = false
			}
		}
		if allWaiting && s.stall > 4*len(live)+8 {
			s.dead = true // everybody waits for a lock nobody will release
			break
		}
		if s.steps >= s.maxStep {
			s.over = true
			break
		}
		t := live[s.rng.Intn(len(live))]
		if !t.waiting {
			s.stall = 0 // somebody who is not waiting for the lock makes progress
		}
		s.steps++
		s.mixInt(uint64(t.id))
		s.cur = t
		t.w.unpark()
		s.main.park()
	}
	s.active = false
}

// yield is called by the running task at a scheduling point.
//
//go:norace
func (s *sched) yield(site string) {
	if !s.active || s.cur == nil {
		return
	}
	t := s.cur
	s.mixStr(site)
	if traceSites {
		println("  ", t.name, site)
	}
	s.main.unpark()
	t.w.park()
}

var traceSites bool

// beforeLock waits (yielding) until the lock can be taken; then the caller's own Lock() cannot block.
//
//go:norace
func (s *sched) beforeLock(mu interface{}, write bool) {
	if !s.active || s.cur == nil {
		return
	}
	t := s.cur
	m, ok := mu.(*sync.RWMutex)
	if !ok {
		return
	}
	s.yield("lock.before")
	for {
		var got bool
		if write {
			got = m.TryLock()
			if got {
				m.Unlock()
			}
		} else {
			got = m.TryRLock()
			if got {
				m.RUnlock()
			}
		}
		if got {
			t.waiting = false
			s.stall = 0
			return
		}
		t.waiting = true
		s.stall++
		s.yield("lock.wait")
		if s.dead || s.over {
			// the run is being abandoned; leave the goroutine parked for ever is not possible, so bail out by panicking
			panic(abandon{})
		}
	}
}

type abandon struct{}

func panicSite() string {
	pcs := make([]uintptr, 64)
	n := runtime.Callers(3, pcs)
	frames := runtime.CallersFrames(pcs[:n])
	for {
		fr, more := frames.Next()
		if strings.Contains(fr.Function, "orda-io/orda/") {
			fn := fr.Function
			if i := strings.LastIndex(fn, "/"); i >= 0 {
				fn = fn[i+1:]
			}
			return fn
		}
		if !more {
			break
		}
	}
	return "unknown"
}

// the trace hash is maintained here, in uninstrumented code: it is touched by every task

//go:norace
func (s *sched) mixInt(v uint64) {
	s.traceH ^= v + 0x9e3779b97f4a7c15 + (s.traceH << 6) + (s.traceH >> 2)
}

//go:norace
func (s *sched) mixStr(str string) {
	h := uint64(1469598103934665603)
	for i := 0; i < len(str); i++ {
		h ^= uint64(str[i])
		h *= 1099511628211
	}
	s.mixInt(h)
}
