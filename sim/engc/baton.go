// Package engc is Engine C: several real goroutines share one datatype object, but exactly one of
// them runs at a time. Control changes hands only at the scheduling points compiled into the
// client library under the build tag `verif` (simhook.Yield / BeforeLock) and at the transport.
// A seeded scheduler picks who runs next, so one seed is one interleaving.
//
// The hand-off is a raw futex in //go:norace functions: it orders the goroutines in real time but
// is invisible to the Go race detector, which therefore still reports two accesses that the
// program itself does not order — under a fully deterministic schedule.
package engc

import (
	"syscall"
	"unsafe"
)

type word struct{ v uint32 }

const (
	futexWaitOp = 0
	futexWakeOp = 1
)

//go:norace
func (w *word) park() {
	for {
		if w.v == 1 {
			w.v = 0
			return
		}
		_, _, _ = syscall.Syscall6(syscall.SYS_FUTEX, uintptr(unsafe.Pointer(&w.v)), futexWaitOp, 0, 0, 0, 0)
	}
}

//go:norace
func (w *word) unpark() {
	w.v = 1
	_, _, _ = syscall.Syscall6(syscall.SYS_FUTEX, uintptr(unsafe.Pointer(&w.v)), futexWakeOp, 1, 0, 0, 0)
}
