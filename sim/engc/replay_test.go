package engc

import (
	"encoding/json"
	"fmt"
	"os"
	"testing"

	"verif/sim/kernel"
)

func TestReplayC(t *testing.T) {
	f := os.Getenv("REPLAY")
	if f == "" {
		t.Skip()
	}
	b, _ := os.ReadFile(f)
	var p kernel.Plan
	_ = json.Unmarshal(b, &p)
	traceSites = true
	res := Execute(&p, nil, true)
	fmt.Println("violation:", res.Violation)
}
