package engc

import (
	"context"
	"encoding/json"
	"fmt"
	mqtt "github.com/eclipse/paho.mqtt.golang"
	"os"
	"runtime"
	"sort"
	"strings"
	"sync"
	"time"

	"github.com/anishathalye/porcupine"
	"github.com/orda-io/orda/client/pkg/iface"
	ordalog "github.com/orda-io/orda/client/pkg/log"
	"github.com/orda-io/orda/client/pkg/model"
	"github.com/orda-io/orda/client/pkg/orda"
	"github.com/orda-io/orda/client/pkg/simhook"
	"github.com/sirupsen/logrus"
	"google.golang.org/grpc"
	"google.golang.org/protobuf/proto"

	"verif/sim/kernel"
)

// the hook variables of the client library are set once and never change (their readers are the
// task goroutines, which the race detector does not see ordered after a later assignment)
var activeSched *sched

//go:norace
func setActive(s *sched) { activeSched = s }

//go:norace
func hookYield(site string) {
	if s := activeSched; s != nil {
		s.yield(site)
	}
}

//go:norace
func hookBeforeLock(mu interface{}, write bool) {
	if s := activeSched; s != nil {
		s.beforeLock(mu, write)
	}
}

//go:norace
func hookBeforeTry(try func() bool) {
	if s := activeSched; s != nil {
		s.beforeTry(try)
	}
}

//go:norace
func hookWillSpawn() uint64 {
	if s := activeSched; s != nil {
		return s.willSpawn()
	}
	return 0
}

//go:norace
func hookGoStart(id uint64) {
	if s := activeSched; s != nil {
		s.goStart(id)
	}
}

//go:norace
func hookGoDone(x interface{}) {
	if s := activeSched; s != nil {
		s.goDone(x)
		return
	}
	if x != nil {
		panic(x)
	}
}

func installHooks() {
	simhook.YieldFunc = hookYield
	simhook.BeforeLockFunc = hookBeforeLock
	simhook.BeforeTryFunc = hookBeforeTry
	simhook.WillSpawnFunc = hookWillSpawn
	simhook.GoStartFunc = hookGoStart
	simhook.GoDoneFunc = hookGoDone
}

func init() {
	installHooks()
	simhook.LoggerFunc = func(l *logrus.Logger) {
		l.SetLevel(logrus.PanicLevel)
		l.SetReportCaller(false)
	}
	ordalog.Logger.Logger.SetLevel(logrus.PanicLevel)
}

// Config of one engine-C run.
type Config struct {
	Kind    string `json:"kind"` // counter | map | list
	Sched   uint64 `json:"sched"`
	Foreign int    `json:"foreign"` // operations a remote replica contributes between syncs
	// Realtime: the shared client is in realtime mode: every local operation starts a delivery goroutine
	// of the library (a task of the scheduler through the inserted WillSpawn/GoStart/GoDone), which
	// pushes by itself; the sync task's Sync() calls come on top. Notifications are not simulated here
	// (engine B does that): the remote replica's operations arrive with the next exchange.
	Realtime bool `json:"realtime,omitempty"`
}

// Ev is one scripted call of a task. All events of one task keep their order; tasks interleave.
type Ev struct {
	Task  int     `json:"task"`
	Op    string  `json:"op"` // inc | get | put | rm | mget | ins | tx | sync
	Delta int32   `json:"delta,omitempty"`
	K     string  `json:"k,omitempty"`
	V     string  `json:"v,omitempty"`
	Body  []Ev    `json:"body,omitempty"`
	Fail  bool    `json:"fail,omitempty"`
	F     []int32 `json:"f,omitempty"` // sync: foreign deltas / values injected before this sync
}

// ---------------------------------------------------------------- server model (transport)

type logServer struct {
	log   []*model.Operation
	cseq  map[string]uint64
	duid  string
	bad   string // first protocol-level problem seen (ops out of order etc.)
	pushN int
}

func (s *logServer) ProcessClient(ctx context.Context, in *model.ClientMessage, _ ...grpc.CallOption) (*model.ClientMessage, error) {
	return in, nil
}

func cloneOp(op *model.Operation) *model.Operation {
	b, _ := proto.Marshal(op)
	var o model.Operation
	_ = proto.Unmarshal(b, &o)
	return &o
}

//go:norace
func (s *logServer) ProcessPushPull(ctx context.Context, in *model.PushPullMessage, _ ...grpc.CallOption) (*model.PushPullMessage, error) {
	out := &model.PushPullMessage{Header: in.Header, Collection: in.Collection, Cuid: in.Cuid}
	for _, p := range in.PushPullPacks {
		rp := &model.PushPullPack{Key: p.Key, DUID: p.DUID, Era: p.Era, Type: p.Type}
		opt := p.GetPushPullPackOption()
		if opt.HasCreateBit() && s.duid == "" {
			s.duid = p.DUID
			o := model.PushPullBitNormal
			rp.Option = uint32(*o.SetCreateBit())
		}
		from := int(p.CheckPoint.GetSseq())
		if from > len(s.log) {
			from = len(s.log)
		}
		for _, op := range s.log[from:] {
			rp.Operations = append(rp.Operations, cloneOp(op))
		}
		for _, op := range p.Operations {
			switch {
			case op.ID.GetSeq() == s.cseq[in.Cuid]+1:
				s.cseq[in.Cuid]++
				s.log = append(s.log, cloneOp(op))
				s.pushN++
			case op.ID.GetSeq() <= s.cseq[in.Cuid]:
				// duplicate
			default:
				if s.bad == "" {
					s.bad = fmt.Sprintf("operation with seq %d pushed after seq %d", op.ID.GetSeq(), s.cseq[in.Cuid])
				}
			}
		}
		rp.CheckPoint = &model.CheckPoint{Sseq: uint64(len(s.log)), Cseq: s.cseq[in.Cuid]}
		out.PushPullPacks = append(out.PushPullPacks, rp)
	}
	b, _ := proto.Marshal(out)
	var cp model.PushPullMessage
	_ = proto.Unmarshal(b, &cp)
	return &cp, nil
}

func (s *logServer) PatchDocument(context.Context, *model.PatchMessage, ...grpc.CallOption) (*model.PatchMessage, error) {
	return nil, fmt.Errorf("not served")
}
func (s *logServer) CreateCollection(context.Context, *model.CollectionMessage, ...grpc.CallOption) (*model.CollectionMessage, error) {
	return nil, fmt.Errorf("not served")
}
func (s *logServer) ResetCollection(context.Context, *model.CollectionMessage, ...grpc.CallOption) (*model.CollectionMessage, error) {
	return nil, fmt.Errorf("not served")
}
func (s *logServer) TestEncodingOperation(context.Context, *model.EncodingMessage, ...grpc.CallOption) (*model.EncodingMessage, error) {
	return nil, fmt.Errorf("not served")
}

// ---------------------------------------------------------------- history for porcupine

type hop struct {
	task   int
	kind   string // inc | get | tx | sync | put | rm | mget
	delta  int32
	k, v   string
	out    string
	call   int64
	ret    int64
	failed bool
}

type run struct {
	prop    string
	cfg     Config
	s       *sched
	srv     *logServer
	shared  iface.Datatype
	pub     interface{}
	remote  iface.Datatype
	rpub    interface{}
	rpushed int
	hist    []hop
	res     *kernel.Result
	viol    *kernel.Violation
	known   map[string]bool
	verbose bool
	clock   int64
	nOwnOK  int32
}

//go:norace
func (r *run) tick() int64 { r.clock++; return r.clock }

//go:norace
func (r *run) record(h hop) { r.hist = append(r.hist, h) }

func (r *run) fail(oracle, fp, format string, a ...interface{}) {
	if r.viol != nil {
		return
	}
	if r.prop != "C20" && strings.HasPrefix(oracle, "C20.") {
		oracle = r.prop + oracle[3:] // the same oracle evaluated for another property's check
	}
	v := &kernel.Violation{Property: r.prop, Oracle: oracle, Fingerprint: fp, Message: fmt.Sprintf(format, a...)}
	if r.known[v.Key()] {
		r.res.Known = append(r.res.Known, v.Key())
		return
	}
	r.viol = v
}

func kindType(kind string) model.TypeOfDatatype {
	switch kind {
	case "counter":
		return model.TypeOfDatatype_COUNTER
	case "map":
		return model.TypeOfDatatype_MAP
	case "doc":
		return model.TypeOfDatatype_DOCUMENT
	}
	return model.TypeOfDatatype_LIST
}

// Execute runs one plan.
func Execute(plan *kernel.Plan, known map[string]bool, verbose bool) *kernel.Result {
	var cfg Config
	_ = json.Unmarshal(plan.Config, &cfg)
	var evs []Ev
	for _, raw := range plan.Events {
		var e Ev
		_ = json.Unmarshal(raw, &e)
		evs = append(evs, e)
	}
	r := &run{prop: plan.Property, cfg: cfg, known: known, verbose: verbose,
		res: &kernel.Result{Faults: map[string]int{}, Probes: map[string]int{}}}
	uid := kernel.NewRng(plan.Seed).Derive("uids")
	installHooks()
	simhook.UIDFunc = func() (string, bool) { return uid.UID(), true }
	r.srv = &logServer{cseq: map[string]uint64{}}
	simhook.ServiceClientFunc = func(string) interface{} { return r.srv }
	r.s = newSched(cfg.Sched ^ plan.Seed)
	setActive(r.s)
	defer func() {
		setActive(nil)
		simhook.UIDFunc, simhook.ServiceClientFunc = nil, nil
	}()
	r.body(evs)
	r.res.Violation = r.viol
	r.res.Steps = r.s.steps
	r.res.TraceHash = r.s.traceH
	r.res.StateHash = r.s.traceH
	r.res.Nontrivial = r.res.Probes["tasks"] >= 2 && r.s.steps > 10
	return r.res
}

func (r *run) body(evs []Ev) {
	st := model.SyncType_MANUALLY
	if r.cfg.Realtime {
		st = model.SyncType_REALTIME
		simhook.MQTTFunc = func(interface{}) interface{} { return &nullMQTT{} }
		defer func() { simhook.MQTTFunc = nil }()
		r.res.Probes["realtime"]++
	}
	// Set-up runs as a task of its own: in realtime mode creating the datatype already starts a delivery
	// goroutine of the library, which has to be under the scheduler like every other one.
	var client orda.Client
	typ := kindType(r.cfg.Kind)
	setupErr := ""
	// (what the set-up task produces is handed over under a mutex: the race detector does not see the
	// scheduler's hand-over, and set-up really is over before anything else starts)
	var su struct {
		sync.Mutex
		client orda.Client
		pub    orda.Datatype
		err    string
	}
	r.s.spawn("setup", func() {
		c := orda.NewClient(&orda.ClientConfig{ServerAddr: "sim", NotificationAddr: "sim", CollectionName: "c", SyncType: st}, "shared")
		e := ""
		var pub orda.Datatype
		if err := c.Connect(); err != nil {
			e = "connect: " + err.Error()
		} else {
			pub = c.CreateDatatype("k", typ, nil)
			if err := c.Sync(); err != nil { // creates the datatype on the model server
				e = "first sync: " + err.Error()
			}
		}
		su.Lock()
		su.client, su.pub, su.err = c, pub, e
		su.Unlock()
	})
	r.s.run()
	su.Lock()
	client, setupErr = su.client, su.err
	if su.pub != nil {
		r.pub = su.pub
		r.shared = su.pub.(iface.Datatype)
	}
	su.Unlock()
	if setupErr != "" || r.s.dead || r.s.over || client == nil || r.pub == nil {
		panic("engine C set-up failed: " + setupErr)
	}
	defer func() {
		done := make(chan struct{})
		go func() { defer close(done); defer func() { recover() }(); _ = client.Close() }()
		select {
		case <-done:
		case <-time.After(2 * time.Second):
		}
	}()
	// the remote replica (not shared; driven by the sync task only)
	rc := orda.NewClient(orda.NewLocalClientConfig("c"), "remote")
	switch typ {
	case model.TypeOfDatatype_COUNTER:
		r.rpub = rc.SubscribeCounter("k", nil)
	case model.TypeOfDatatype_MAP:
		r.rpub = rc.SubscribeMap("k", nil)
	case model.TypeOfDatatype_DOCUMENT:
		r.rpub = rc.SubscribeDocument("k", nil)
	default:
		r.rpub = rc.SubscribeList("k", nil)
	}
	r.remote = r.rpub.(iface.Datatype)
	var ops []*model.Operation
	for _, op := range r.srv.log {
		ops = append(ops, cloneOp(op))
	}
	o := model.PushPullBitNormal
	o.SetSubscribeBit()
	r.remote.ApplyPushPullPack(&model.PushPullPack{Key: "k", DUID: r.srv.duid, Option: uint32(o), Type: typ,
		CheckPoint: &model.CheckPoint{Sseq: uint64(len(r.srv.log))}, Operations: ops})
	rrecv := len(r.srv.log)
	// tasks
	byTask := map[int][]Ev{}
	var ids []int
	for _, e := range evs {
		if _, ok := byTask[e.Task]; !ok {
			ids = append(ids, e.Task)
		}
		byTask[e.Task] = append(byTask[e.Task], e)
	}
	sort.Ints(ids)
	r.res.Probes["tasks"] = len(ids)
	for _, id := range ids {
		script := byTask[id]
		tid := id
		r.s.spawn(fmt.Sprintf("t%d", id), func() {
			for _, e := range script {
				r.call(tid, e, client, &rrecv)
			}
		})
	}
	// (wall clock, generous: a run takes milliseconds, but under a heavily loaded machine every hand-over
	// can wait for a time slice; the supervisor reports this panic as harness trouble, never as a verdict)
	watch := time.AfterFunc(90*time.Second, func() {
		buf := make([]byte, 1<<18)
		n := runtime.Stack(buf, true)
		fmt.Fprintf(os.Stderr, "engine C watchdog: goroutines:\n%s\n", buf[:n])
		panic("engine C: wall-clock watchdog (a task blocked outside the scheduler)")
	})
	r.s.run()
	watch.Stop()
	// release whatever is still parked (deadlock / step cap): one at a time, each bails out at its next scheduling point
	if r.s.dead || r.s.over {
		r.releaseAll()
	}
	r.judge(client, &rrecv)
}

//go:norace
func (r *run) releaseAll() {
	s := r.s
	s.active = true
	for _, t := range s.tasks {
		for !t.done {
			s.cur = t
			t.w.unpark()
			s.main.park()
		}
	}
	s.active = false
}

// call performs one scripted call on the shared datatype (on the task's goroutine).
func (r *run) call(tid int, e Ev, client orda.Client, rrecv *int) {
	h := hop{task: tid, kind: e.Op, delta: e.Delta, k: e.K, v: e.V, call: r.tick()}
	switch e.Op {
	case "inc":
		v, err := r.pub.(orda.Counter).IncreaseBy(e.Delta)
		h.out, h.failed = fmt.Sprint(v), err != nil
	case "get":
		h.out = fmt.Sprint(r.pub.(orda.Counter).Get())
	case "put":
		old, err := r.pub.(orda.Map).Put(e.K, e.V)
		h.out, h.failed = fmt.Sprint(old), err != nil
	case "rm":
		old, err := r.pub.(orda.Map).Remove(e.K)
		h.out, h.failed = fmt.Sprint(old), err != nil
	case "mget":
		h.out = fmt.Sprint(r.pub.(orda.Map).Get(e.K))
	case "ins":
		_, err := r.pub.(orda.List).Insert(0, e.V)
		h.failed = err != nil
	case "ldel":
		_, err := r.pub.(orda.List).Delete(0)
		h.failed = err != nil
	case "lget":
		_, err := r.pub.(orda.List).Get(0)
		h.failed = err != nil
	case "dput":
		_, err := r.pub.(orda.Document).PutToObject(e.K, e.V)
		h.failed = err != nil
	case "dget":
		h.out = kernel.Canon(r.pub.(orda.Document).GetValue())
	case "tx":
		var net int32
		body := func(do func(b Ev)) error {
			for i, b := range e.Body {
				if i > 0 {
					r.s.yield("body") // the user's function may be pre-empted between its calls
				}
				do(b)
			}
			if e.Fail {
				return fmt.Errorf("no")
			}
			return nil
		}
		var err error
		switch p := r.pub.(type) {
		case orda.Counter:
			err = p.Transaction("t", func(c orda.CounterInTx) error {
				return body(func(b Ev) {
					if _, e2 := c.IncreaseBy(b.Delta); e2 == nil {
						net += b.Delta
					}
				})
			})
		case orda.Map:
			err = p.Transaction("t", func(c orda.MapInTx) error {
				return body(func(b Ev) { _, _ = c.Put(b.K, b.V) })
			})
		case orda.List:
			err = p.Transaction("t", func(c orda.ListInTx) error {
				return body(func(b Ev) { _, _ = c.Insert(0, b.V) })
			})
		}
		h.failed = err != nil
		if err != nil {
			net = 0
		}
		h.delta = net
	case "sync":
		// the remote replica contributes operations first
		for _, f := range e.F {
			switch p := r.rpub.(type) {
			case orda.Counter:
				_, _ = p.IncreaseBy(f)
			case orda.Map:
				_, _ = p.Put(fmt.Sprintf("r%d", f%3), fmt.Sprintf("rv%d", f))
			case orda.List:
				_, _ = p.Insert(0, fmt.Sprintf("rv%d", f))
			}
			r.record(hop{task: 1000 + len(r.hist), kind: "remote", delta: f, call: h.call, ret: -1})
		}
		all := r.remote.CreatePushPullPack().Operations
		for _, op := range all[r.rpushed:] {
			r.srv.log = append(r.srv.log, cloneOp(op))
		}
		r.rpushed = len(all)
		err := client.Sync()
		h.failed = err != nil
	}
	h.ret = r.tick()
	if h.kind == "sync" {
		// the remote operations fed before this Sync take effect one by one somewhere inside it
		for i := range r.hist {
			if r.hist[i].kind == "remote" && r.hist[i].ret == -1 {
				r.hist[i].ret = h.ret
			}
		}
	}
	r.record(h)
}

// finalSync: one more Sync, single-threaded, so that everything issued has been pushed (not for the
// C18 runs: there nobody calls Sync).
func (r *run) finalSync(client orda.Client) bool {
	syncDone := make(chan error, 1)
	go func() { syncDone <- client.Sync() }()
	select {
	case err := <-syncDone:
		if err != nil {
			r.fail("C20.queued-once-in-order", "final-sync", "final Sync failed: %v", err)
			return false
		}
	case <-time.After(30 * time.Second):
		// nobody else is running any more: whatever Sync() waits for will never be released
		r.fail("C20.no-deadlock", "sync-never-returns", "after all goroutines finished, Sync() does not return: it waits for something that nobody holds any more (a lock or the delivery semaphore was not released)")
		return false
	}
	return true
}

// judge evaluates the oracles once all tasks are done.
func (r *run) judge(client orda.Client, rrecv *int) {
	s := r.s
	for _, t := range s.tasks {
		if t.panicV != "" && !strings.Contains(t.panicV, "engc.abandon") && t.panicV != fmt.Sprint(abandon{}) {
			r.fail("C20.no-panic", t.panicAt, "task %s panicked: %s", t.name, t.panicV)
		}
	}
	if s.dead {
		var who []string
		for _, t := range s.tasks {
			if t.waiting {
				who = append(who, t.name)
			}
		}
		r.fail("C20.no-deadlock", "all-waiting", "tasks %v wait for the datatype's lock and nobody can release it", who)
		return
	}
	if s.over {
		r.res.Inconclusive++
		return
	}
	if r.viol != nil {
		return
	}
	if r.srv.bad != "" {
		r.fail("C20.queued-once-in-order", "gap-or-reorder", "the push stream of the shared datatype is broken: %s", r.srv.bad)
		return
	}
	c18 := r.cfg.Realtime && r.prop == "C18"
	if !c18 {
		if !r.finalSync(client) {
			return
		}
	}
	if r.srv.bad != "" {
		r.fail("C20.queued-once-in-order", "gap-or-reorder", "the push stream of the shared datatype is broken: %s", r.srv.bad)
		return
	}
	cuid := r.shared.GetCUID()
	var mine []*model.Operation
	for _, op := range r.srv.log {
		if op.ID.GetCUID() == cuid {
			mine = append(mine, op)
		}
	}
	for i, op := range mine {
		if op.ID.GetSeq() != uint64(i+1) {
			r.fail("C20.queued-once-in-order", "seq", "operation %d of the shared datatype in the log has seq %d", i+1, op.ID.GetSeq())
			return
		}
	}
	// transactions are contiguous units in the server's log (nothing of anybody else in between)
	for i := 0; i < len(r.srv.log); i++ {
		h := r.srv.log[i]
		if h.OpType != model.TypeOfOperation_TRANSACTION {
			continue
		}
		var b struct{ NumOfOps int32 }
		_ = json.Unmarshal(h.Body, &b)
		for j := 1; j < int(b.NumOfOps); j++ {
			if i+j >= len(r.srv.log) || r.srv.log[i+j].ID.GetCUID() != h.ID.GetCUID() || r.srv.log[i+j].ID.GetSeq() != h.ID.GetSeq()+uint64(j) {
				r.fail("C20.tx-not-interleaved", "unit-split-in-log", "a transaction of %d operations (client seq %d..) was pushed in pieces: in the server's log it is not followed by its own operations", b.NumOfOps, h.ID.GetSeq())
				return
			}
		}
		i += int(b.NumOfOps) - 1
	}
	// number of operations queued == number of successful calls (+ headers + snapshot op)
	// replay of the log on a fresh replica == the shared object
	fc := orda.NewClient(orda.NewLocalClientConfig("c"), "replay")
	fresh := fc.CreateDatatype("k", kindType(r.cfg.Kind), nil).(iface.Datatype)
	fresh.SetDUID(r.srv.duid)
	var ops []*model.Operation
	for _, op := range r.srv.log {
		ops = append(ops, cloneOp(op))
	}
	if _, err := fresh.ReceiveRemoteModelOperations(ops, false); err != nil {
		r.fail("C20.no-lost-update", "replay-error", "replaying the pushed stream fails: %v", err)
		return
	}
	got, want := kernel.Canon(r.shared.ToJSON()), kernel.Canon(fresh.ToJSON())
	if got != want && c18 {
		// C18: a realtime client pushes what it does without anybody calling Sync. All goroutines,
		// including every delivery goroutine the library started, have finished: the server has it all.
		r.fail("C18.realtime-pushes-by-itself", r.cfg.Kind+"/operations-left-behind", "realtime client: all goroutines (user calls and every delivery goroutine of the library) have finished, nobody called Sync, and the server's log does not hold everything the client did (nothing will push the rest before the next local operation):\n  client       : %s\n  replay of log: %s", clip(got), clip(want))
		return
	}
	if c18 {
		r.res.Probes["realtime-push-checked"]++
		return
	}
	if got != want {
		r.fail("C20.no-lost-update", r.cfg.Kind+"/differs-from-replay", "after all goroutines finished and a final Sync, the shared object differs from a replay of everything it pushed and pulled:\n  shared: %s\n  replay: %s", clip(got), clip(want))
		return
	}
	// counter: final value == sum of successful own deltas + foreign deltas
	if c, ok := r.pub.(orda.Counter); ok {
		var sum int32
		for _, h := range r.hist {
			if !h.failed && (h.kind == "inc" || h.kind == "tx" || h.kind == "remote") {
				sum += h.delta
			}
		}
		if c.Get() != sum {
			r.fail("C20.no-lost-update", "counter-sum", "counter is %d but the successful calls and remote operations add up to %d", c.Get(), sum)
			return
		}
	}
	r.linearizable()
}

func clip(s string) string {
	if len(s) > 400 {
		return s[:400] + "…"
	}
	return s
}

// linearizable checks the recorded call history against the plain structure (porcupine).
func (r *run) linearizable() {
	if r.cfg.Kind == "list" || r.cfg.Kind == "doc" {
		return
	}
	var ops []porcupine.Operation
	for _, h := range r.hist {
		ops = append(ops, porcupine.Operation{ClientId: h.task, Input: h, Call: h.call, Output: h.out, Return: h.ret})
	}
	var m porcupine.Model
	if r.cfg.Kind == "counter" {
		m = porcupine.Model{
			Init: func() interface{} { return int32(0) },
			Step: func(st, in, out interface{}) (bool, interface{}) {
				s, h := st.(int32), in.(hop)
				switch h.kind {
				case "inc":
					if h.failed {
						return true, s
					}
					return out.(string) == fmt.Sprint(s+h.delta), s + h.delta
				case "get":
					return out.(string) == fmt.Sprint(s), s
				case "tx", "remote":
					return true, s + h.delta
				}
				return true, s
			},
			Equal: func(a, b interface{}) bool { return a.(int32) == b.(int32) },
		}
	} else {
		m = porcupine.Model{
			Init: func() interface{} { return "" },
			Step: func(st, in, out interface{}) (bool, interface{}) {
				mp := decodeMap(st.(string))
				h := in.(hop)
				switch h.kind {
				case "put":
					if h.failed {
						return true, st
					}
					old := "<nil>"
					if v, ok := mp[h.k]; ok {
						old = v
					}
					mp[h.k] = h.v
					return out.(string) == old, encodeMap(mp)
				case "rm":
					old := "<nil>"
					if v, ok := mp[h.k]; ok {
						old = v
					}
					if h.failed {
						return old == "<nil>", st
					}
					delete(mp, h.k)
					return out.(string) == old, encodeMap(mp)
				case "mget":
					old := "<nil>"
					if v, ok := mp[h.k]; ok {
						old = v
					}
					return out.(string) == old, st
				case "tx":
					if h.failed {
						return true, st
					}
					return true, st // bodies of map transactions put unique keys; not modelled further
				}
				return true, st
			},
			Equal: func(a, b interface{}) bool { return a.(string) == b.(string) },
		}
		// map histories with transactions or remote operations are not modelled by the sequential map
		for _, h := range r.hist {
			if h.kind == "tx" || h.kind == "remote" {
				return
			}
		}
	}
	switch porcupine.CheckOperationsTimeout(m, ops, 10*time.Second) {
	case porcupine.Illegal:
		// is it only the reads that see something no one-at-a-time order explains?
		var writes []porcupine.Operation
		for _, o := range ops {
			if k := o.Input.(hop).kind; k != "get" && k != "mget" {
				writes = append(writes, o)
			}
		}
		class := r.cfg.Kind + "/writes"
		if porcupine.CheckOperationsTimeout(m, writes, 10*time.Second) == porcupine.Ok {
			class = r.cfg.Kind + "/read-of-uncommitted-or-stale"
		}
		var sb strings.Builder
		for _, h := range r.hist {
			fmt.Fprintf(&sb, "  t%d %s(%d %s %s) -> %s [%d,%d] failed=%v\n", h.task, h.kind, h.delta, h.k, h.v, h.out, h.call, h.ret, h.failed)
		}
		r.fail("C20.linearizable", class, "the history of calls on the shared %s is not linearizable against the plain structure:\n%s", r.cfg.Kind, sb.String())
	case porcupine.Unknown:
		r.res.Inconclusive++
	default:
		r.res.Probes["linearizable-checked"]++
	}
}

func decodeMap(s string) map[string]string {
	m := map[string]string{}
	if s == "" {
		return m
	}
	_ = json.Unmarshal([]byte(s), &m)
	return m
}

func encodeMap(m map[string]string) string {
	if len(m) == 0 {
		return ""
	}
	b, _ := json.Marshal(m)
	return string(b)
}

// nullMQTT stands in for the notification client of a realtime client in engine C: it connects and
// subscribes successfully and never delivers anything.
type nullMQTT struct{}

type nullToken struct{}

func (nullToken) Wait() bool                     { return true }
func (nullToken) WaitTimeout(time.Duration) bool { return true }
func (nullToken) Done() <-chan struct{}          { c := make(chan struct{}); close(c); return c }
func (nullToken) Error() error                   { return nil }

func (*nullMQTT) IsConnected() bool                                  { return true }
func (*nullMQTT) IsConnectionOpen() bool                             { return true }
func (*nullMQTT) Connect() mqtt.Token                                { return nullToken{} }
func (*nullMQTT) Disconnect(uint)                                    {}
func (*nullMQTT) Publish(string, byte, bool, interface{}) mqtt.Token { return nullToken{} }
func (*nullMQTT) Subscribe(string, byte, mqtt.MessageHandler) mqtt.Token {
	return nullToken{}
}
func (*nullMQTT) SubscribeMultiple(map[string]byte, mqtt.MessageHandler) mqtt.Token {
	return nullToken{}
}
func (*nullMQTT) Unsubscribe(...string) mqtt.Token        { return nullToken{} }
func (*nullMQTT) AddRoute(string, mqtt.MessageHandler)    {}
func (*nullMQTT) OptionsReader() mqtt.ClientOptionsReader { return mqtt.ClientOptionsReader{} }
