package engc

import (
	"fmt"
	"os"
	"strconv"
	"testing"
	"time"
)

func TestSmokeC(t *testing.T) {
	n, _ := strconv.Atoi(os.Getenv("N"))
	if n == 0 {
		n = 200
	}
	base, _ := strconv.Atoi(os.Getenv("BASE"))
	found := map[string]int{}
	t0 := time.Now()
	steps, inc, lin := 0, 0, 0
	for i := 0; i < n; i++ {
		if os.Getenv("SEEDLOG") != "" {
			fmt.Println("seed", base+i)
		}
		plan := Gen("C20", "quick", uint64(base+i))
		res := Execute(plan, nil, false)
		steps += res.Steps
		inc += res.Inconclusive
		lin += res.Probes["linearizable-checked"]
		if res.Violation != nil {
			k := res.Violation.Key()
			found[k]++
			if found[k] == 1 {
				fmt.Printf("seed %d: %v\n", base+i, res.Violation)
			}
		}
	}
	fmt.Println("runs", n, "in", time.Since(t0), "steps", steps, "inconclusive", inc, "linearizable-checked", lin)
	for k, v := range found {
		fmt.Println(v, k)
	}
}
