// Command instr inserts scheduling points into a SCRATCH COPY of orda sources (never into /repo).
//
// Hand-placed scheduling points (hook H6) only cover the windows somebody thought of; a change to the
// code opens new ones (a lock taken per element instead of around the loop, a look-up followed by a
// store). This tool puts the points where the code is, every time a check is built:
//
//	-mode stmt  before every statement of every function body (client library, engine C)
//	-mode sync  before every statement that touches a synchronisation object (server, engine B)
//
// In both modes a blocking Lock()/RLock() statement additionally gets simhook.BeforeTry(...) so that a
// task never blocks inside a real mutex while it is the only one allowed to run.
// The inserted calls are no-ops unless the simulator has set the hook variables (build tag verif).
package main

import (
	"bytes"
	"flag"
	"fmt"
	"go/ast"
	"go/format"
	"go/parser"
	"go/token"
	"os"
	"path/filepath"
	"regexp"
	"strconv"
	"strings"
)

const hookPath = "github.com/orda-io/orda/client/pkg/simhook"

var (
	mode    = flag.String("mode", "sync", "stmt | sync")
	verbose = flag.Bool("v", false, "list what was inserted")
)

var syncMethods = map[string]bool{
	"Lock": true, "Unlock": true, "RLock": true, "RUnlock": true, "TryLock": true, "TryRLock": true,
	"Load": true, "Store": true, "LoadOrStore": true, "LoadAndDelete": true, "Delete": true, "Range": true,
	"CompareAndSwap": true, "Swap": true, "Acquire": true, "TryAcquire": true, "Release": true,
	"Wait": true, "Signal": true, "Broadcast": true, "Add": true, "Done": true,
	"TryLockWithContext": true, "TryLockWithTimeout": true,
}

var alwaysSync = map[string]bool{"Lock": true, "Unlock": true, "RLock": true, "RUnlock": true, "TryLock": true, "TryRLock": true,
	"LoadOrStore": true, "LoadAndDelete": true, "TryAcquire": true, "TryLockWithContext": true, "TryLockWithTimeout": true}

var syncReceiver = regexp.MustCompile(`(?i)(lock|mutex|mu|mtx|map|sema|sem|cond|wg|waitgroup|once)$`)

type file struct {
	fset     *token.FileSet
	f        *ast.File
	name     string
	inserted int
	hookName string
}

func main() {
	flag.Parse()
	total := 0
	for _, dir := range flag.Args() {
		ents, err := os.ReadDir(dir)
		if err != nil {
			fmt.Fprintln(os.Stderr, "instr:", err)
			os.Exit(2)
		}
		for _, e := range ents {
			n := e.Name()
			if e.IsDir() || !strings.HasSuffix(n, ".go") || strings.HasSuffix(n, "_test.go") {
				continue
			}
			p := filepath.Join(dir, n)
			k, err := instrument(p)
			if err != nil {
				fmt.Fprintf(os.Stderr, "instr: %s: %v\n", p, err)
				os.Exit(2)
			}
			total += k
			if *verbose {
				fmt.Printf("%s: %d scheduling points inserted\n", p, k)
			}
		}
	}
	fmt.Printf("instr: mode %s, %d scheduling points inserted\n", *mode, total)
}

func instrument(path string) (int, error) {
	src, err := os.ReadFile(path)
	if err != nil {
		return 0, err
	}
	if bytes.Contains(src, []byte("//go:build")) && bytes.Contains(src, []byte("verif")) {
		return 0, nil // tag-guarded helper files of the hooks themselves
	}
	fset := token.NewFileSet()
	af, err := parser.ParseFile(fset, path, src, parser.ParseComments)
	if err != nil {
		return 0, err
	}
	if af.Name.Name == "simhook" {
		return 0, nil
	}
	fl := &file{fset: fset, f: af, name: filepath.Base(path), hookName: "simhook"}
	for _, im := range af.Imports {
		if p, _ := strconv.Unquote(im.Path.Value); p == hookPath && im.Name != nil {
			fl.hookName = im.Name.Name
		}
	}
	for _, d := range af.Decls {
		fd, ok := d.(*ast.FuncDecl)
		if !ok || fd.Body == nil || fd.Name.Name == "init" {
			continue
		}
		fl.block(fd.Body)
	}
	if fl.inserted == 0 {
		return 0, nil
	}
	fl.ensureImport()
	// Inserted nodes have no positions, and the printer places comments by position: keep only what the
	// compiler reads (build constraints before the package clause, //go: directives); this is a scratch copy.
	var keep []*ast.CommentGroup
	for _, cg := range af.Comments {
		if cg.End() < af.Package {
			keep = append(keep, cg)
			continue
		}
		for _, c := range cg.List {
			if strings.HasPrefix(c.Text, "//go:") || strings.HasPrefix(c.Text, "// +build") {
				keep = append(keep, cg)
				break
			}
		}
	}
	af.Comments = keep
	for _, d := range af.Decls {
		switch x := d.(type) {
		case *ast.FuncDecl:
			if x.Doc != nil && !hasDirective(x.Doc) {
				x.Doc = nil
			}
		case *ast.GenDecl:
			if x.Doc != nil && !hasDirective(x.Doc) {
				x.Doc = nil
			}
		}
	}
	// comments are dropped from function bodies we touched only if their positions clash; printing with
	// the original comment list keeps them attached well enough for a scratch copy
	var buf bytes.Buffer
	if err := format.Node(&buf, fset, af); err != nil {
		return 0, err
	}
	return fl.inserted, os.WriteFile(path, buf.Bytes(), 0o644)
}

func hasDirective(cg *ast.CommentGroup) bool {
	for _, c := range cg.List {
		if strings.HasPrefix(c.Text, "//go:") {
			return true
		}
	}
	return false
}

func (fl *file) ensureImport() {
	for _, im := range fl.f.Imports {
		if p, _ := strconv.Unquote(im.Path.Value); p == hookPath {
			return
		}
	}
	spec := &ast.ImportSpec{Path: &ast.BasicLit{Kind: token.STRING, Value: strconv.Quote(hookPath)}}
	for _, d := range fl.f.Decls {
		if gd, ok := d.(*ast.GenDecl); ok && gd.Tok == token.IMPORT {
			gd.Specs = append(gd.Specs, spec)
			if !gd.Lparen.IsValid() {
				gd.Lparen = gd.Pos()
				gd.Rparen = gd.End()
			}
			fl.f.Imports = append(fl.f.Imports, spec)
			return
		}
	}
	gd := &ast.GenDecl{Tok: token.IMPORT, Specs: []ast.Spec{spec}}
	fl.f.Decls = append([]ast.Decl{gd}, fl.f.Decls...)
	fl.f.Imports = append(fl.f.Imports, spec)
}

// block rewrites the statement list of a block and descends into nested blocks and function literals.
func (fl *file) block(b *ast.BlockStmt) {
	if b == nil {
		return
	}
	b.List = fl.list(b.List)
}

func (fl *file) list(in []ast.Stmt) []ast.Stmt {
	out := make([]ast.Stmt, 0, len(in)*2)
	for _, s := range in {
		fl.descend(s)
		if g, ok := s.(*ast.GoStmt); ok && *mode == "stmt" {
			if blk := fl.managedGo(g); blk != nil {
				out = append(out, fl.before(s)...)
				out = append(out, blk)
				continue
			}
		}
		if !fl.isHookCall(s) {
			out = append(out, fl.before(s)...)
		}
		out = append(out, s)
	}
	return out
}

// descend instruments the blocks nested in s (bodies, clauses, function literals anywhere in it).
func (fl *file) descend(s ast.Stmt) {
	switch x := s.(type) {
	case *ast.BlockStmt:
		fl.block(x)
	case *ast.IfStmt:
		fl.funcLitsIn(x.Init)
		fl.funcLitsInExpr(x.Cond)
		fl.block(x.Body)
		if x.Else != nil {
			fl.descend(x.Else)
		}
	case *ast.ForStmt:
		fl.block(x.Body)
	case *ast.RangeStmt:
		fl.block(x.Body)
	case *ast.SwitchStmt:
		fl.clauses(x.Body)
	case *ast.TypeSwitchStmt:
		fl.clauses(x.Body)
	case *ast.SelectStmt:
		fl.clauses(x.Body)
	case *ast.LabeledStmt:
		fl.descend(x.Stmt)
	default:
		fl.funcLitsIn(s)
	}
}

func (fl *file) clauses(b *ast.BlockStmt) {
	if b == nil {
		return
	}
	for _, c := range b.List {
		switch cc := c.(type) {
		case *ast.CaseClause:
			cc.Body = fl.list(cc.Body)
		case *ast.CommClause:
			cc.Body = fl.list(cc.Body)
		}
	}
}

func (fl *file) funcLitsIn(n ast.Node) {
	if n == nil {
		return
	}
	ast.Inspect(n, func(x ast.Node) bool {
		if lit, ok := x.(*ast.FuncLit); ok {
			fl.block(lit.Body)
			return false
		}
		return true
	})
}

func (fl *file) funcLitsInExpr(e ast.Expr) {
	if e != nil {
		fl.funcLitsIn(e)
	}
}

func (fl *file) isHookCall(s ast.Stmt) bool {
	es, ok := s.(*ast.ExprStmt)
	if !ok {
		return false
	}
	call, ok := es.X.(*ast.CallExpr)
	if !ok {
		return false
	}
	sel, ok := call.Fun.(*ast.SelectorExpr)
	if !ok {
		return false
	}
	id, ok := sel.X.(*ast.Ident)
	return ok && id.Name == fl.hookName
}

// headerCalls returns the method calls evaluated when control reaches s (not those in nested bodies or
// function literals).
func headerCalls(s ast.Stmt) []*ast.CallExpr {
	var roots []ast.Node
	switch x := s.(type) {
	case *ast.ExprStmt:
		roots = append(roots, x.X)
	case *ast.AssignStmt:
		for _, e := range x.Rhs {
			roots = append(roots, e)
		}
		for _, e := range x.Lhs {
			roots = append(roots, e)
		}
	case *ast.IfStmt:
		if x.Init != nil {
			roots = append(roots, x.Init)
		}
		roots = append(roots, x.Cond)
	case *ast.ReturnStmt:
		for _, e := range x.Results {
			roots = append(roots, e)
		}
	case *ast.SwitchStmt:
		if x.Init != nil {
			roots = append(roots, x.Init)
		}
		if x.Tag != nil {
			roots = append(roots, x.Tag)
		}
	case *ast.DeclStmt:
		roots = append(roots, x)
	case *ast.SendStmt:
		roots = append(roots, x.Chan, x.Value)
	case *ast.RangeStmt:
		roots = append(roots, x.X)
	}
	var out []*ast.CallExpr
	for _, r := range roots {
		ast.Inspect(r, func(n ast.Node) bool {
			switch c := n.(type) {
			case *ast.FuncLit:
				return false
			case *ast.CallExpr:
				out = append(out, c)
			}
			return true
		})
	}
	return out
}

func lastName(e ast.Expr) string {
	switch x := e.(type) {
	case *ast.Ident:
		return x.Name
	case *ast.SelectorExpr:
		return x.Sel.Name
	case *ast.ParenExpr:
		return lastName(x.X)
	case *ast.StarExpr:
		return lastName(x.X)
	case *ast.UnaryExpr:
		return lastName(x.X)
	case *ast.IndexExpr:
		return lastName(x.X)
	case *ast.CallExpr:
		return lastName(x.Fun)
	}
	return ""
}

func (fl *file) touchesSync(s ast.Stmt) (bool, string) {
	for _, c := range headerCalls(s) {
		sel, ok := c.Fun.(*ast.SelectorExpr)
		if !ok || !syncMethods[sel.Sel.Name] {
			continue
		}
		if alwaysSync[sel.Sel.Name] || syncReceiver.MatchString(lastName(sel.X)) {
			return true, sel.Sel.Name
		}
	}
	return false, ""
}

// before returns the statements to put in front of s.
func (fl *file) before(s ast.Stmt) []ast.Stmt {
	var out []ast.Stmt
	line := fl.fset.Position(s.Pos()).Line
	site := func(kind string) string { return fmt.Sprintf("%s:%s:%d", kind, fl.name, line) }
	switch s.(type) {
	case *ast.EmptyStmt:
		return nil
	}
	// a plain blocking acquisition: first wait (cooperatively) until it cannot block
	if es, ok := s.(*ast.ExprStmt); ok {
		if call, ok := es.X.(*ast.CallExpr); ok && len(call.Args) == 0 {
			if sel, ok := call.Fun.(*ast.SelectorExpr); ok && (sel.Sel.Name == "Lock" || sel.Sel.Name == "RLock") {
				try, un := "TryLock", "Unlock"
				if sel.Sel.Name == "RLock" {
					try, un = "TryRLock", "RUnlock"
				}
				out = append(out, fl.yield(site("i")))
				out = append(out, fl.beforeTry(sel.X, try, un))
				fl.inserted++
				return out
			}
		}
	}
	// a blocking semaphore acquisition (x/sync/semaphore): X.Acquire(ctx, n) anywhere in the header
	for _, c := range headerCalls(s) {
		if sel, ok := c.Fun.(*ast.SelectorExpr); ok && sel.Sel.Name == "Acquire" && len(c.Args) == 2 {
			out = append(out, fl.yield(site("i")))
			out = append(out, fl.beforeTryArgs(sel.X, "TryAcquire", "Release", c.Args[1]))
			fl.inserted++
			return out
		}
	}
	switch *mode {
	case "stmt":
		out = append(out, fl.yield(site("i")))
		fl.inserted++
	default:
		if ok, _ := fl.touchesSync(s); ok {
			out = append(out, fl.yield(site("i")))
			fl.inserted++
		}
	}
	return out
}

// managedGo turns `go func() { body }()` into
//
//	{ id := simhook.WillSpawn(); go func() { defer func() { simhook.GoDone(recover()) }(); simhook.GoStart(id); body }() }
//
// so that a goroutine the library starts becomes a task of the scheduler. Only literal functions
// without parameters are rewritten (the arguments of other go statements would have to be evaluated
// at the go statement); anything else stays a goroutine outside the scheduler.
func (fl *file) managedGo(g *ast.GoStmt) ast.Stmt {
	lit, ok := g.Call.Fun.(*ast.FuncLit)
	if !ok || len(g.Call.Args) != 0 || (lit.Type.Params != nil && len(lit.Type.Params.List) != 0) {
		return nil
	}
	for _, st := range lit.Body.List {
		if es, ok := st.(*ast.ExprStmt); ok && fl.isHookCall(st) {
			if sel, ok := es.X.(*ast.CallExpr).Fun.(*ast.SelectorExpr); ok && sel.Sel.Name == "GoStart" {
				return nil // already managed by hand
			}
		}
	}
	hook := func(name string, args ...ast.Expr) *ast.CallExpr {
		return &ast.CallExpr{Fun: &ast.SelectorExpr{X: ast.NewIdent(fl.hookName), Sel: ast.NewIdent(name)}, Args: args}
	}
	id := ast.NewIdent("simSpawnID")
	// defer func() { simhook.GoDone(recover()) }()
	done := &ast.DeferStmt{Call: &ast.CallExpr{Fun: &ast.FuncLit{
		Type: &ast.FuncType{Params: &ast.FieldList{}},
		Body: &ast.BlockStmt{List: []ast.Stmt{&ast.ExprStmt{X: hook("GoDone", &ast.CallExpr{Fun: ast.NewIdent("recover")})}}},
	}}}
	body := append([]ast.Stmt{
		done,
		&ast.ExprStmt{X: hook("GoStart", id)},
	}, lit.Body.List...)
	lit.Body.List = body
	fl.inserted++
	line := fl.fset.Position(g.Pos()).Line
	return &ast.BlockStmt{List: []ast.Stmt{
		&ast.AssignStmt{Lhs: []ast.Expr{id}, Tok: token.DEFINE, Rhs: []ast.Expr{hook("WillSpawn")}},
		g,
		// the new goroutine may run before its parent does anything else
		fl.yield(fmt.Sprintf("i:%s:%d:spawned", fl.name, line)),
	}}
}

func (fl *file) yield(site string) ast.Stmt {
	return &ast.ExprStmt{X: &ast.CallExpr{
		Fun:  &ast.SelectorExpr{X: ast.NewIdent(fl.hookName), Sel: ast.NewIdent("Yield")},
		Args: []ast.Expr{&ast.BasicLit{Kind: token.STRING, Value: strconv.Quote(site)}},
	}}
}

// beforeTry builds: simhook.BeforeTry(func() bool { if X.TryLock() { X.Unlock(); return true }; return false })
func (fl *file) beforeTry(recv ast.Expr, try, un string) ast.Stmt {
	return fl.beforeTryArgs(recv, try, un)
}

func (fl *file) beforeTryArgs(recv ast.Expr, try, un string, args ...ast.Expr) ast.Stmt {
	call := func(m string) *ast.CallExpr {
		return &ast.CallExpr{Fun: &ast.SelectorExpr{X: recv, Sel: ast.NewIdent(m)}, Args: args}
	}
	body := &ast.BlockStmt{List: []ast.Stmt{
		&ast.IfStmt{Cond: call(try), Body: &ast.BlockStmt{List: []ast.Stmt{
			&ast.ExprStmt{X: call(un)},
			&ast.ReturnStmt{Results: []ast.Expr{ast.NewIdent("true")}},
		}}},
		&ast.ReturnStmt{Results: []ast.Expr{ast.NewIdent("false")}},
	}}
	lit := &ast.FuncLit{Type: &ast.FuncType{Params: &ast.FieldList{}, Results: &ast.FieldList{List: []*ast.Field{{Type: ast.NewIdent("bool")}}}}, Body: body}
	return &ast.ExprStmt{X: &ast.CallExpr{
		Fun:  &ast.SelectorExpr{X: ast.NewIdent(fl.hookName), Sel: ast.NewIdent("BeforeTry")},
		Args: []ast.Expr{lit},
	}}
}
