// Command verif is the supervisor of the deterministic-simulation checks: it starts worker
// processes on disjoint run indices, survives their death (a SUT panic in a goroutine nobody
// recovers is a finding, not a harness failure), shrinks violations with delta debugging across
// process boundaries, writes replay files and the evidence file.
package main

import (
	"bufio"
	"bytes"
	"encoding/json"
	"fmt"
	"os"
	"os/exec"
	"path/filepath"
	"regexp"
	"sort"
	"strconv"
	"strings"
	"sync"
	"sync/atomic"
	"syscall"
	"time"

	"verif/sim/kernel"
	"verif/sim/worker"
)

var (
	verifDir = envOr("VERIF_DIR", "/verif")
	binDir   = envOr("VERIF_BIN", filepath.Join(verifDir, "bin"))
	outDir   = envOr("VERIF_OUT", verifDir)
)

func envOr(k, d string) string {
	if v := os.Getenv(k); v != "" {
		return v
	}
	return d
}

func envInt(k string, d int) int {
	if v := os.Getenv(k); v != "" {
		if n, err := strconv.Atoi(v); err == nil {
			return n
		}
	}
	return d
}

func harnessFail(format string, a ...interface{}) {
	fmt.Fprintf(os.Stderr, "HARNESS-ERROR: "+format+"\n", a...)
	os.Exit(2)
}

// ---------------------------------------------------------------- known findings

type knownEntry struct {
	Property    string `json:"property"`
	Oracle      string `json:"oracle"`
	Fingerprint string `json:"fingerprint"`
	Where       string `json:"where"`
	What        string `json:"what"`
	Replay      string `json:"replay,omitempty"`
}

func (k knownEntry) key() string { return k.Property + "|" + k.Oracle + "|" + k.Fingerprint }

type knownFile struct {
	Open  []knownEntry `json:"open"`
	Fixed []string     `json:"fixed"`
}

func loadKnown() *knownFile {
	var kf knownFile
	b, err := os.ReadFile(filepath.Join(verifDir, "known_findings.json"))
	if err != nil {
		return &kf
	}
	if err := json.Unmarshal(b, &kf); err != nil {
		harnessFail("known_findings.json does not parse: %v", err)
	}
	return &kf
}

// ---------------------------------------------------------------- running workers

type crash struct {
	Idx  int
	Seed uint64
	Viol *kernel.Violation
	Tail string
	Plan *kernel.Plan // enum mode: the plan that was running (from the worker's marker)
}

type batchResult struct {
	Lines   []worker.Line
	Crashes []crash
}

var toolCrashes int64 // worker deaths below the Go runtime that did not repeat

var orcaFrame = regexp.MustCompile(`(github\.com/orda-io/orda/[^\s(]+)`)

func crashFingerprint(stderr string) (string, string) {
	// first line of the panic and the first orda frame below it
	idx := strings.Index(stderr, "panic: ")
	kind := "panic"
	if idx < 0 {
		idx = strings.Index(stderr, "fatal error: ")
		kind = "fatal"
	}
	if idx < 0 {
		return "", ""
	}
	rest := stderr[idx:]
	line := rest
	if i := strings.IndexByte(rest, '\n'); i >= 0 {
		line = rest[:i]
	}
	fp := kind
	if m := orcaFrame.FindStringSubmatch(rest); m != nil {
		fn := m[1]
		if i := strings.LastIndex(fn, "/"); i >= 0 {
			fn = fn[i+1:]
		}
		fp = kind + "/" + fn
	}
	return line, fp
}

// workerBin: C12 runs the race-detector build of the instrumented copy, C20 the instrumented copy,
// everything else the plain build (see ./check).
// runtimeInternalCrash: a "fatal error" raised inside the runtime's own traceback machinery, with no
// frame of orda (or of the harness) before the runtime frames end.
func runtimeInternalCrash(stderr string) bool {
	i := strings.Index(stderr, "fatal error: ")
	if i < 0 || strings.Contains(stderr[:i], "panic: ") {
		return false
	}
	rest := stderr[i:]
	if !strings.Contains(rest, "runtime.tracebackHexdump") && !strings.Contains(rest, "runtime.(*unwinder)") {
		return false
	}
	// first goroutine block only
	if j := strings.Index(rest, "\n\ngoroutine "); j > 0 {
		if k := strings.Index(rest[j+2:], "\n\n"); k > 0 {
			rest = rest[:j+2+k]
		}
	}
	return !strings.Contains(rest, "orda-io/orda/") && !strings.Contains(rest, "verif/sim/")
}

func workerBin(pi *propInfo) string {
	switch {
	case pi.mode == "race":
		return filepath.Join(binDir, "worker-race-instrc.test")
	case pi.Race && os.Getenv("VERIF_RACE") != "0":
		return filepath.Join(binDir, "worker-race-instr.test")
	case pi.Instr:
		return filepath.Join(binDir, "worker-instr.test")
	}
	return filepath.Join(binDir, "worker.test")
}

// runJob runs one worker process to completion, restarting after SUT crashes.
func runJob(scratch string, id int, job worker.Job, pi *propInfo, perRunTimeout time.Duration) (*batchResult, error) {
	out := &batchResult{}
	unexplained := map[int]int{}
	for attempt := 0; attempt < 200; attempt++ {
		job.Out = filepath.Join(scratch, fmt.Sprintf("w%d-%d.jsonl", id, attempt))
		job.Marker = filepath.Join(scratch, fmt.Sprintf("w%d-%d.cur", id, attempt))
		jf := filepath.Join(scratch, fmt.Sprintf("w%d-%d.job", id, attempt))
		jb, _ := json.Marshal(job)
		if err := os.WriteFile(jf, jb, 0o644); err != nil {
			return nil, err
		}
		errFile := filepath.Join(scratch, fmt.Sprintf("w%d-%d.err", id, attempt))
		ef, _ := os.Create(errFile)
		cmd := exec.Command(workerBin(pi), "-test.run", "^TestWorker$", "-test.timeout", "0", "-test.count", "1")
		cmd.Env = append(os.Environ(), "VERIF_JOB="+jf, "GOMAXPROCS="+envOr("VERIF_WORKER_GOMAXPROCS", "2"), "GORACE=halt_on_error=1 exitcode=66")
		if pi.mode == "race" {
			// engine C under the race detector: reports are collected by the worker itself after every
			// run (worker/racelog.go), the harness's own bookkeeping is filtered out there
			rlog := filepath.Join(scratch, fmt.Sprintf("race-w%d-%d", id, attempt))
			cmd.Env = append(os.Environ(), "VERIF_JOB="+jf, "GOMAXPROCS="+envOr("VERIF_WORKER_GOMAXPROCS", "2"), "GORACE=halt_on_error=0 exitcode=0 log_path="+rlog, "VERIF_RACELOG="+rlog)
		}
		cmd.Stdout = ef
		cmd.Stderr = ef
		if err := cmd.Start(); err != nil {
			return nil, err
		}
		done := make(chan error, 1)
		go func() { done <- cmd.Wait() }()
		var werr error
		hung := false
		lastMark, lastChange := "", time.Now()
	wait:
		for {
			select {
			case werr = <-done:
				break wait
			case <-time.After(500 * time.Millisecond):
				mb, _ := os.ReadFile(job.Marker)
				if string(mb) != lastMark {
					lastMark, lastChange = string(mb), time.Now()
				} else if time.Since(lastChange) > perRunTimeout {
					hung = true
					// ask the Go runtime for all goroutine stacks (it prints them and exits), then make sure
					_ = cmd.Process.Signal(syscall.SIGQUIT)
					select {
					case werr = <-done:
					case <-time.After(10 * time.Second):
						_ = cmd.Process.Kill()
						werr = <-done
					}
					break wait
				}
			}
		}
		ef.Close()
		lines, finished := readLines(job.Out)
		out.Lines = append(out.Lines, lines...)
		if finished && werr == nil {
			return out, nil
		}
		tailB, _ := os.ReadFile(errFile)
		tail := string(tailB)
		if strings.Contains(tail, "HARNESS:") {
			return nil, fmt.Errorf("worker %d: %s", id, lastLines(tail, 5))
		}
		mb, _ := os.ReadFile(job.Marker)
		idx, vr := 0, 0
		if fs := strings.Fields(string(mb)); len(fs) > 0 {
			idx, _ = strconv.Atoi(fs[0])
			if len(fs) > 1 {
				vr, _ = strconv.Atoi(fs[1])
			}
		}
		var v *kernel.Violation
		switch {
		case hung:
			if fn, excerpt, ok := sutBlockedForever(tail); ok {
				// A goroutine of the system under test is blocked - for good - on something the simulator
				// does not control (a package-level channel, mutex or semaphore): the simulated world
				// cannot go on, and neither could a real server's request.
				v = &kernel.Violation{Property: job.Property, Oracle: job.Property + ".every-call-returns", Fingerprint: "hang/" + fn,
					Message: fmt.Sprintf("no progress for %v of wall clock: a goroutine is blocked in %s on a synchronisation object outside the simulated world\n%s", perRunTimeout, fn, excerpt)}
				break
			}
			return nil, fmt.Errorf("worker %d: run %d exceeded the per-run wall-clock cap of %v (watchdog)", id, idx, perRunTimeout)
		case strings.Contains(tail, "WARNING: DATA RACE") && harnessOnlyRace(tail):
			return nil, fmt.Errorf("worker %d: data race between two accesses of the harness itself (not a verdict about orda):\n%s", id, firstLines(raceBlock(tail), 30))
		case strings.Contains(tail, "WARNING: DATA RACE"):
			v = &kernel.Violation{Property: job.Property, Oracle: job.Property + ".no-race", Fingerprint: raceFingerprint(tail), Message: firstLines(raceBlock(tail), 45)}
		default:
			line, fp := crashFingerprint(tail)
			if fp != "" && runtimeInternalCrash(tail) {
				fp = "" // the Go runtime itself fell over (seen in race-detector builds while a recovered panic was unwound): not the system under test
			}
			if fp == "" && unexplained[idx*100000+vr] == 0 && (job.Mode == "seeds" || job.Mode == "enum" || idx < len(job.Plans)) {
				// The process went down below the Go runtime's panic machinery (seen once per several
				// thousand race-detector runs: a bare "SIGSEGV ... PC=" register dump from the tsan
				// runtime). Nothing of the system under test is on such a stack. The same run is
				// repeated once in a fresh process; a second death of the same run is an error.
				unexplained[idx*100000+vr]++
				atomic.AddInt64(&toolCrashes, 1)
				fmt.Fprintf(os.Stderr, "note: worker %d died below the Go runtime in run %d (%v); repeating that run once\n%s\n", id, idx, werr, firstLines(tail, 6))
				if job.Mode == "seeds" {
					job.First = idx
				} else if job.Mode == "enum" {
					job.First, job.FirstVar = idx, vr
				} else {
					out.Lines = append(out.Lines, worker.Line{K: "retrymark", I: idx})
					job.Plans = job.Plans[idx:]
				}
				continue
			}
			if fp == "" {
				return nil, fmt.Errorf("worker %d died without a Go panic (exit: %v):\n%s\n...\n%s", id, werr, firstLines(tail, 40), lastLines(tail, 15))
			}
			if strings.Contains(tail, "engine C: wall-clock watchdog") {
				return nil, fmt.Errorf("worker %d: %s (the scheduler of engine C made no progress for 90 s of wall clock: harness trouble, not a verdict)\n%s", id, line, firstLines(tail, 60))
			}
			if !strings.Contains(tail, "orda-io/orda/") {
				return nil, fmt.Errorf("worker %d: harness panic: %s\n%s", id, line, lastLines(tail, 40))
			}
			v = &kernel.Violation{Property: job.Property, Oracle: job.Property + ".process-crash", Fingerprint: fp, Message: line + "\n" + firstLines(tail[strings.Index(tail, line):], 25)}
		}
		c := crash{Idx: idx, Viol: v, Tail: lastLines(tail, 60)}
		if job.Mode == "enum" {
			var pl kernel.Plan
			pb, _ := os.ReadFile(job.Marker + ".plan")
			if json.Unmarshal(pb, &pl) != nil {
				return nil, fmt.Errorf("worker %d: died in enum mode and left no plan file", id)
			}
			c.Plan, c.Seed = &pl, pl.Seed
			out.Crashes = append(out.Crashes, c)
			if vr == 0 {
				job.First, job.FirstVar = idx+max(job.Stride, 1), 0 // the base scenario itself brings the process down
			} else {
				job.First, job.FirstVar = idx, vr+1
			}
			if job.DeadlineMs > 0 && time.Now().UnixMilli() >= job.DeadlineMs {
				return out, nil
			}
		} else if job.Mode == "seeds" {
			c.Seed = worker.RunSeed(job.BatchSeed, job.Property, idx)
			out.Crashes = append(out.Crashes, c)
			job.First = idx + max(job.Stride, 1)
			if job.MaxRuns > 0 {
				donePrev := 0
				for _, l := range lines {
					if l.K == "agg" {
						donePrev += l.Agg.Runs
					}
				}
				job.MaxRuns -= donePrev + 1
				if job.MaxRuns <= 0 {
					return out, nil
				}
			}
			if job.DeadlineMs > 0 && time.Now().UnixMilli() >= job.DeadlineMs {
				return out, nil
			}
		} else {
			out.Crashes = append(out.Crashes, c)
			// plans mode: continue with the remaining plan files
			if idx+1 >= len(job.Plans) {
				return out, nil
			}
			// renumber: record how many were consumed so the caller can map indices
			for i := range out.Lines {
				_ = i
			}
			consumed := idx + 1
			out.Lines = append(out.Lines, worker.Line{K: "crashmark", I: consumed})
			job.Plans = job.Plans[consumed:]
		}
	}
	return out, fmt.Errorf("worker %d: too many crashes", id)
}

var gHeader = regexp.MustCompile(`(?m)^goroutine \d+ [^\[]*\[([^\]]*)\]:$`)

// sutBlockedForever reads a goroutine dump taken when a run made no progress. In a synctest bubble every
// wait the simulator knows about is marked "(durable)"; a bubble goroutine that waits on a channel,
// mutex, semaphore or condition WITHOUT that mark waits on an object from outside the bubble, which
// nobody inside can ever signal in simulated time. If the innermost frame outside the Go runtime of
// such a goroutine is orda code, the system under test has hung itself.
func sutBlockedForever(dump string) (string, string, bool) {
	locs := gHeader.FindAllStringSubmatchIndex(dump, -1)
	for i, l := range locs {
		state := dump[l[2]:l[3]]
		if !strings.Contains(state, "synctest bubble") || strings.Contains(state, "(durable)") {
			continue
		}
		blocking := false
		for _, w := range []string{"chan send", "chan receive", "select", "semacquire", "sync.Mutex", "sync.RWMutex", "sync.Cond", "sync.WaitGroup"} {
			if strings.HasPrefix(state, w) {
				blocking = true
			}
		}
		if !blocking {
			continue
		}
		end := len(dump)
		if i+1 < len(locs) {
			end = locs[i+1][0]
		}
		block := dump[l[0]:end]
		for _, ln := range strings.Split(block, "\n")[1:] {
			t := strings.TrimSpace(ln)
			if t == "" || strings.HasPrefix(t, "/") || strings.HasPrefix(t, "runtime.") || strings.HasPrefix(t, "sync.") || strings.HasPrefix(t, "internal/") ||
				strings.HasPrefix(t, "golang.org/x/sync/") || strings.HasPrefix(t, "created by ") {
				continue
			}
			if strings.HasPrefix(t, "github.com/orda-io/orda/") && !strings.HasPrefix(t, "github.com/orda-io/orda/client/pkg/simhook.") {
				fn := t
				if j := strings.Index(fn, "("); j > 0 {
					if k := strings.LastIndex(fn[:strings.LastIndex(fn, "(")], "/"); k >= 0 {
						fn = fn[k+1:]
					}
				}
				if j := strings.LastIndex(fn, "("); j > 0 {
					fn = fn[:j]
				}
				return fn, firstLines(block, 14), true
			}
			break // the innermost frame is the harness or a dependency: not a verdict about orda
		}
	}
	return "", "", false
}

func raceBlock(s string) string {
	i := strings.Index(s, "WARNING: DATA RACE")
	if i < 0 {
		return s
	}
	return s[i:]
}

var raceFrame = regexp.MustCompile(`\n\s+(github\.com/orda-io/orda/[^\s(]+)`)

// harnessOnlyRace: the frame that performs the access is, in both stacks of the report, harness code.
func harnessOnlyRace(s string) bool {
	b := raceBlock(s)
	var tops []string
	lines := strings.Split(b, "\n")
	for i, ln := range lines {
		t := strings.TrimSpace(ln)
		if (strings.HasPrefix(t, "Write at ") || strings.HasPrefix(t, "Read at ") || strings.HasPrefix(t, "Previous write at ") || strings.HasPrefix(t, "Previous read at ") ||
			strings.HasPrefix(t, "Atomic write at ") || strings.HasPrefix(t, "Previous atomic write at ") || strings.HasPrefix(t, "Atomic read at ") || strings.HasPrefix(t, "Previous atomic read at ")) && i+1 < len(lines) {
			tops = append(tops, strings.TrimSpace(lines[i+1]))
		}
	}
	if len(tops) < 2 {
		return false
	}
	for _, t := range tops[:2] {
		if !strings.HasPrefix(t, "verif/sim/") {
			return false
		}
	}
	return true
}

func raceFingerprint(s string) string {
	b := raceBlock(s)
	m := raceFrame.FindAllStringSubmatch(b, 2)
	var fs []string
	for _, x := range m {
		fn := x[1]
		if i := strings.LastIndex(fn, "/"); i >= 0 {
			fn = fn[i+1:]
		}
		fs = append(fs, fn)
	}
	sort.Strings(fs)
	if len(fs) == 0 {
		return "race/unknown"
	}
	return "race/" + strings.Join(fs, "+")
}

func lastLines(s string, n int) string {
	ls := strings.Split(strings.TrimRight(s, "\n"), "\n")
	if len(ls) > n {
		ls = ls[len(ls)-n:]
	}
	return strings.Join(ls, "\n")
}

func firstLines(s string, n int) string {
	ls := strings.Split(s, "\n")
	if len(ls) > n {
		ls = ls[:n]
	}
	return strings.Join(ls, "\n")
}

func readLines(path string) ([]worker.Line, bool) {
	f, err := os.Open(path)
	if err != nil {
		return nil, false
	}
	defer f.Close()
	var out []worker.Line
	finished := false
	sc := bufio.NewScanner(f)
	sc.Buffer(make([]byte, 1<<20), 1<<28)
	for sc.Scan() {
		var l worker.Line
		if json.Unmarshal(sc.Bytes(), &l) != nil {
			continue
		}
		if l.K == "done" {
			finished = true
			continue
		}
		out = append(out, l)
	}
	return out, finished
}

// ---------------------------------------------------------------- executing explicit plans (shrinking, replay)

type planOutcome struct {
	Res   *kernel.Result
	Crash *crash
}

func (o planOutcome) key() string {
	if o.Crash != nil {
		return o.Crash.Viol.Key()
	}
	if o.Res != nil && o.Res.Violation != nil {
		return o.Res.Violation.Key()
	}
	return ""
}

func (o planOutcome) violation() *kernel.Violation {
	if o.Crash != nil {
		return o.Crash.Viol
	}
	if o.Res != nil {
		return o.Res.Violation
	}
	return nil
}

// execPlans runs the given plans in up to `par` worker processes and returns outcomes in order.
func execPlans(scratch string, pi *propInfo, plans []*kernel.Plan, known []string, verbose bool, par int) ([]planOutcome, error) {
	outs := make([]planOutcome, len(plans))
	if len(plans) == 0 {
		return outs, nil
	}
	dir, err := os.MkdirTemp(scratch, "plans")
	if err != nil {
		return nil, err
	}
	files := make([]string, len(plans))
	for i, p := range plans {
		files[i] = filepath.Join(dir, fmt.Sprintf("p%d.json", i))
		b, _ := json.Marshal(p)
		if err := os.WriteFile(files[i], b, 0o644); err != nil {
			return nil, err
		}
	}
	if par > len(plans) {
		par = len(plans)
	}
	var wg sync.WaitGroup
	var mu sync.Mutex
	var firstErr error
	for w := 0; w < par; w++ {
		var mine []int
		for i := w; i < len(plans); i += par {
			mine = append(mine, i)
		}
		wg.Add(1)
		go func(w int, mine []int) {
			defer wg.Done()
			job := worker.Job{Engine: plans[0].Engine, Property: plans[0].Property, Mode: "plans", Known: known, Verbose: verbose}
			for _, i := range mine {
				job.Plans = append(job.Plans, files[i])
			}
			sub, _ := os.MkdirTemp(dir, "w")
			br, err := runJob(sub, w, job, pi, pi.perRun())
			mu.Lock()
			defer mu.Unlock()
			if err != nil {
				if firstErr == nil {
					firstErr = err
				}
				return
			}
			// map results back: lines carry index within the (possibly re-sliced) plan list
			base := 0
			ci := 0
			for _, l := range br.Lines {
				switch l.K {
				case "run":
					if base+l.I < len(mine) {
						outs[mine[base+l.I]].Res = l.Res
					}
				case "crashmark":
					// the crash happened at index base+consumed-1
					if ci < len(br.Crashes) {
						c := br.Crashes[ci]
						outs[mine[base+l.I-1]].Crash = &c
						ci++
					}
					base += l.I
				case "retrymark":
					base += l.I
				}
			}
			for ; ci < len(br.Crashes); ci++ {
				c := br.Crashes[ci]
				if base+c.Idx < len(mine) {
					outs[mine[base+c.Idx]].Crash = &c
				}
			}
		}(w, mine)
	}
	wg.Wait()
	os.RemoveAll(dir)
	return outs, firstErr
}

// ---------------------------------------------------------------- shrinking

type shrinker struct {
	scratch string
	pi      *propInfo
	key     string
	known   []string
	tried   int
	start   time.Time
	budgetN int
	budgetT time.Duration
}

func (s *shrinker) spent() bool {
	return s.tried >= s.budgetN || time.Since(s.start) > s.budgetT
}

// firstHit executes candidates in parallel and returns the index of the first that still fails the same way.
func (s *shrinker) firstHit(cands []*kernel.Plan) int {
	if len(cands) == 0 || s.spent() {
		return -1
	}
	s.tried += len(cands)
	outs, err := execPlans(s.scratch, s.pi, cands, s.known, false, 16)
	if err != nil {
		return -1
	}
	for i, o := range outs {
		if o.key() == s.key {
			return i
		}
	}
	return -1
}

func withEvents(p *kernel.Plan, evs []json.RawMessage) *kernel.Plan {
	q := *p
	q.Events = evs
	return &q
}

func (s *shrinker) ddmin(p *kernel.Plan) *kernel.Plan {
	evs := p.Events
	n := 2
	for len(evs) >= 1 && !s.spent() {
		if n > len(evs) {
			n = len(evs)
		}
		chunk := (len(evs) + n - 1) / n
		var cands []*kernel.Plan
		var keeps [][]json.RawMessage
		for start := 0; start < len(evs); start += chunk {
			end := min(start+chunk, len(evs))
			keep := append(append([]json.RawMessage{}, evs[:start]...), evs[end:]...)
			keeps = append(keeps, keep)
			cands = append(cands, withEvents(p, keep))
		}
		if hit := s.firstHit(cands); hit >= 0 {
			evs = keeps[hit]
			n = max(n-1, 2)
			if len(evs) == 0 {
				break
			}
			continue
		}
		if chunk == 1 {
			break
		}
		n = min(n*2, len(evs))
	}
	return withEvents(p, evs)
}

// simplify asks the engine (through the worker's generator package) for one-change candidates.
func (s *shrinker) simplify(p *kernel.Plan) *kernel.Plan {
	for round := 0; round < 6 && !s.spent(); round++ {
		cands := simplifications(p)
		if len(cands) == 0 {
			break
		}
		improved := false
		for len(cands) > 0 && !s.spent() {
			n := min(len(cands), 32)
			hit := s.firstHit(cands[:n])
			if hit >= 0 {
				p = cands[hit]
				improved = true
				break
			}
			cands = cands[n:]
		}
		if !improved {
			break
		}
	}
	return p
}

// ---------------------------------------------------------------- replay files

type replayFile struct {
	Engine    string            `json:"engine"`
	Property  string            `json:"property"`
	Seed      uint64            `json:"seed"`
	Config    json.RawMessage   `json:"config"`
	Events    []json.RawMessage `json:"events"`
	Expect    *kernel.Violation `json:"expect"`
	StateHash uint64            `json:"log_digest"`
	Original  int               `json:"original_events"`
	Note      string            `json:"note,omitempty"`
	Log       []string          `json:"event_log,omitempty"`
}

func (r *replayFile) plan() *kernel.Plan {
	return &kernel.Plan{Engine: r.Engine, Property: r.Property, Seed: r.Seed, Config: r.Config, Events: r.Events}
}

func writeReplay(prop string, seed uint64, v *kernel.Violation, p *kernel.Plan, out planOutcome, orig int) string {
	dir := filepath.Join(outDir, "replays", prop)
	_ = os.MkdirAll(dir, 0o755)
	name := fmt.Sprintf("%d-%s.json", seed, sanitize(v.Oracle+"-"+v.Fingerprint))
	path := filepath.Join(dir, name)
	rf := replayFile{Engine: p.Engine, Property: prop, Seed: p.Seed, Config: p.Config, Events: p.Events, Expect: v, Original: orig}
	if out.Res != nil {
		rf.StateHash = out.Res.StateHash
		rf.Log = out.Res.Log
	}
	if out.Crash != nil {
		rf.Note = "process crash; stderr tail:\n" + out.Crash.Tail
	}
	b, _ := json.MarshalIndent(rf, "", " ")
	_ = os.WriteFile(path, b, 0o644)
	return path
}

func sanitize(s string) string {
	var sb strings.Builder
	for _, c := range s {
		if c >= 'a' && c <= 'z' || c >= 'A' && c <= 'Z' || c >= '0' && c <= '9' || c == '.' || c == '-' || c == '_' {
			sb.WriteRune(c)
		} else {
			sb.WriteByte('_')
		}
	}
	out := sb.String()
	if len(out) > 120 {
		out = out[:120]
	}
	return out
}

// raceVariant: the same engine in a race-detector build of the same instrumented copy (the hand-over
// between the scheduled goroutines is invisible to the detector: two accesses the program itself does
// not order are reported even though the scheduler never lets them overlap in time).
func raceVariant(pi *propInfo) *propInfo {
	e := *pi
	e.mode = "race"
	e.Rule = pi.Rule + " [race-detector build, other seeds]"
	return &e
}

func doReplay(path string) int {
	b, err := os.ReadFile(path)
	if err != nil {
		harnessFail("cannot read %s: %v", path, err)
	}
	var rf replayFile
	if err := json.Unmarshal(b, &rf); err != nil {
		harnessFail("bad replay file: %v", err)
	}
	pi := props[rf.Property]
	if pi == nil {
		harnessFail("unknown property %s", rf.Property)
	}
	if pi.Engine != rf.Engine && pi.Also != nil && pi.Also.Engine == rf.Engine {
		pi = pi.Also // the property's second engine (it may run another worker binary)
	}
	if pi.RaceAlso && rf.Expect != nil && strings.HasSuffix(rf.Expect.Oracle, ".no-race") {
		pi = raceVariant(pi)
	}
	scratch, _ := os.MkdirTemp("", "orda-verif.")
	defer os.RemoveAll(scratch)
	outs, err := execPlans(scratch, pi, []*kernel.Plan{rf.plan()}, nil, true, 1)
	if err != nil {
		harnessFail("%v", err)
	}
	o := outs[0]
	v := o.violation()
	if v == nil {
		fmt.Printf("replay %s: no violation (expected %s/%s)\n", path, rf.Expect.Oracle, rf.Expect.Fingerprint)
		return 0
	}
	if o.Res != nil {
		for _, l := range o.Res.Log {
			fmt.Println("  ", l)
		}
	}
	fmt.Printf("replay: %s\n", v.Error())
	same := rf.Expect != nil && v.Key() == rf.Expect.Key()
	digestOK := o.Res == nil || rf.StateHash == 0 || o.Res.StateHash == rf.StateHash
	fmt.Printf("replay: same (oracle,fingerprint) as recorded: %v; same event-log digest: %v\n", same, digestOK)
	fmt.Printf("VIOLATION property=%s replay=%s\n", rf.Property, path)
	return 1
}

// ---------------------------------------------------------------- the check

type evidence struct {
	PropertyID  string                 `json:"property_id"`
	Tier        string                 `json:"tier"`
	Seed        int64                  `json:"seed"`
	Level       string                 `json:"level"`
	Coverage    map[string]interface{} `json:"coverage"`
	Assumptions []string               `json:"assumptions"`
	WallS       float64                `json:"wall_s"`
	Violations  int                    `json:"violations"`
}

// engineOut is what one engine's batch contributes to a check.
type engineOut struct {
	total    worker.Agg
	hashes   map[uint64]bool
	states   map[uint64]bool
	samples  []interface{}
	counts   map[string]int
	vioLines []string
	nviol    int
}

func runEngine(pi *propInfo, prop, tier string, seed int64, workers, budget, maxRuns int, scratch string, knownKeys []string, myKnown []knownEntry) *engineOut {
	deadline := time.Now().Add(time.Duration(budget) * time.Second).UnixMilli()
	results := make([]*batchResult, workers)
	errs := make([]error, workers)
	var wg sync.WaitGroup
	for w := 0; w < workers; w++ {
		wg.Add(1)
		go func(w int) {
			defer wg.Done()
			job := worker.Job{Engine: pi.Engine, Property: prop, Tier: tier, Mode: "seeds", BatchSeed: uint64(seed),
				First: w, Stride: workers, DeadlineMs: deadline, Known: knownKeys, Twice: pi.Twice}
			if pi.mode == "race" {
				job.BatchSeed ^= 0x5ace0000
			}
			if pi.mode == "enum" {
				job.Mode = "enum"
				job.MaxPairs = pi.EnumPairsQuick
				if tier == "thorough" {
					job.MaxPairs = pi.EnumPairsThorough
				}
			}
			if maxRuns > 0 {
				job.MaxRuns = (maxRuns + workers - 1) / workers
			}
			if w == 0 {
				job.Samples = 3
			}
			sub := filepath.Join(scratch, fmt.Sprintf("w%d", w))
			_ = os.MkdirAll(sub, 0o755)
			results[w], errs[w] = runJob(sub, w, job, pi, pi.perRun())
		}(w)
	}
	wg.Wait()
	for _, e := range errs {
		if e != nil {
			harnessFail("%v", e)
		}
	}
	// aggregate
	total := worker.Agg{Faults: map[string]int{}, Probes: map[string]int{}, Known: map[string]int{}}
	hashes := map[uint64]bool{}
	states := map[uint64]bool{}
	type found struct {
		idx  int
		seed uint64
		v    *kernel.Violation
		plan *kernel.Plan
		out  planOutcome
	}
	byKey := map[string]*found{}
	counts := map[string]int{}
	var samples []interface{}
	for _, br := range results {
		for _, l := range br.Lines {
			switch l.K {
			case "agg":
				a := l.Agg
				total.Runs += a.Runs
				total.SimNanos += a.SimNanos
				total.Steps += a.Steps
				total.Inconcl += a.Inconcl
				for k, v := range a.Faults {
					total.Faults[k] += v
				}
				for k, v := range a.Probes {
					total.Probes[k] += v
				}
				for k, v := range a.Known {
					total.Known[k] += v
				}
				for _, h := range a.Hashes {
					hashes[h] = true
				}
				for _, s := range a.States {
					states[s] = true
				}
			case "run":
				if l.Res != nil && l.Res.Violation != nil {
					k := l.Res.Violation.Key()
					counts[k]++
					if f, ok := byKey[k]; (!ok || (l.I < f.idx && l.Plan != nil)) && l.Plan != nil {
						byKey[k] = &found{idx: l.I, seed: l.Seed, v: l.Res.Violation, plan: l.Plan, out: planOutcome{Res: l.Res}}
					}
				} else if l.Plan != nil && len(samples) < 3 {
					samples = append(samples, map[string]interface{}{"seed": l.Seed, "config": l.Plan.Config, "events": l.Plan.Events,
						"event_log": l.Res.Log, "probes": l.Res.Probes, "faults": l.Res.Faults})
				}
			}
		}
		for _, c := range br.Crashes {
			c := c
			k := c.Viol.Key()
			counts[k]++
			if f, ok := byKey[k]; !ok || c.Idx < f.idx {
				plan := c.Plan
				if plan == nil {
					plan = regenPlan(pi, prop, tier, c.Seed)
				}
				byKey[k] = &found{idx: c.Idx, seed: c.Seed, v: c.Viol, plan: plan, out: planOutcome{Crash: &c}}
			}
		}
	}
	// known findings: probe plans
	for _, k := range myKnown {
		hit := total.Known[k.key()] + counts[k.key()]
		fmt.Printf("KNOWN-FINDING: property=%s %s [%s/%s at %s; hit in %d runs of this batch]\n", prop, k.What, k.Oracle, k.Fingerprint, k.Where, hit)
	}
	// violations
	keys := make([]string, 0, len(byKey))
	for k := range byKey {
		keys = append(keys, k)
	}
	sort.Slice(keys, func(i, j int) bool { return byKey[keys[i]].idx < byKey[keys[j]].idx })
	isKnown := map[string]bool{}
	for _, k := range knownKeys {
		isKnown[k] = true
	}
	nviol := 0
	var vioLines []string
	for _, k := range keys {
		if isKnown[k] {
			continue
		}
		f := byKey[k]
		nviol++
		if nviol > 3 {
			fmt.Printf("further violation class (not shrunk): %s seen %d times, first at run %d seed %d\n", k, counts[k], f.idx, f.seed)
			continue
		}
		fmt.Printf("violation class %s: %d runs; first at run %d (seed %d): %s\n", k, counts[k], f.idx, f.seed, f.v.Message)
		plan, out := f.plan, f.out
		orig := len(plan.Events)
		if strings.Contains(k, "|hang/") {
			// every candidate of a shrink would cost a full watchdog period: the plan is kept as it is
			fmt.Printf("  not minimised (each candidate execution would wait for the %v watchdog)\n", pi.perRun())
		} else if os.Getenv("VERIF_NO_SHRINK") == "" {
			sh := &shrinker{scratch: scratch, pi: pi, key: k, known: knownKeys, start: time.Now(), budgetN: 600, budgetT: 150 * time.Second}
			small := sh.ddmin(plan)
			small = sh.simplify(small)
			// confirm in a fresh process, with the event log
			outs, err := execPlans(scratch, pi, []*kernel.Plan{small}, knownKeys, true, 1)
			if err == nil && outs[0].key() == k {
				plan, out = small, outs[0]
				fmt.Printf("  minimised from %d to %d events in %d candidate executions; replay reproduced in a fresh process\n", orig, len(plan.Events), sh.tried)
			} else {
				outs2, err2 := execPlans(scratch, pi, []*kernel.Plan{f.plan}, knownKeys, true, 1)
				if err2 == nil && outs2[0].key() == k {
					plan, out = f.plan, outs2[0]
					fmt.Printf("  minimised plan did not reproduce; keeping the original plan (reproduced in a fresh process)\n")
				} else {
					fmt.Printf("  WARNING: the violation did not reproduce in a fresh process (flaky oracle or SUT nondeterminism); replay file keeps the original plan\n")
				}
			}
		}
		v := out.violation()
		if v == nil {
			v = f.v
		}
		path := writeReplay(prop, f.seed, v, plan, out, orig)
		vioLines = append(vioLines, fmt.Sprintf("VIOLATION property=%s replay=%s", prop, path))
	}

	return &engineOut{total: total, hashes: hashes, states: states, samples: samples, counts: counts, vioLines: vioLines, nviol: nviol}
}

func doCheck(prop, tier string) int {
	pi := props[prop]
	if pi == nil {
		harnessFail("unknown property %s", prop)
	}
	start := time.Now()
	seed := int64(envInt("VERIF_SEED", 1))
	workers := envInt("VERIF_WORKERS", 16)
	budget := pi.QuickS
	if tier == "thorough" {
		budget = pi.ThoroughS
	}
	budget = envInt("VERIF_BUDGET_S", budget)
	maxRuns := envInt("VERIF_MAX_RUNS", 0)
	kf := loadKnown()
	var knownKeys []string
	var myKnown []knownEntry
	for _, k := range kf.Open {
		if k.Property == prop {
			knownKeys = append(knownKeys, k.key())
			myKnown = append(myKnown, k)
		}
	}
	scratch, err := os.MkdirTemp("", "orda-verif.")
	if err != nil {
		harnessFail("%v", err)
	}
	defer os.RemoveAll(scratch)

	engines := []*propInfo{pi}
	if pi.Also != nil {
		engines = append(engines, pi.Also)
	}
	if pi.Enum {
		e := *pi
		e.mode = "enum"
		e.Rule = pi.EnumRule
		engines = append(engines, &e)
	}
	if pi.RaceAlso {
		engines = append(engines, raceVariant(pi))
	}
	total := worker.Agg{Faults: map[string]int{}, Probes: map[string]int{}, Known: map[string]int{}}
	hashes := map[uint64]bool{}
	states := map[uint64]bool{}
	counts := map[string]int{}
	var samples []interface{}
	var vioLines []string
	nviol := 0
	perEngine := map[string]interface{}{}
	for ei, e := range engines {
		b := budget
		if len(engines) > 1 {
			b = budget / len(engines)
		}
		sub := filepath.Join(scratch, fmt.Sprintf("e%d", ei))
		_ = os.MkdirAll(sub, 0o755)
		o := runEngine(e, prop, tier, seed, workers, b, maxRuns, sub, knownKeys, myKnown)
		total.Runs += o.total.Runs
		total.SimNanos += o.total.SimNanos
		total.Steps += o.total.Steps
		total.Inconcl += o.total.Inconcl
		for k, v := range o.total.Faults {
			total.Faults[k] += v
		}
		for k, v := range o.total.Probes {
			total.Probes[k] += v
		}
		for k, v := range o.total.Known {
			total.Known[k] += v
		}
		for h := range o.hashes {
			hashes[h^uint64(ei)<<60] = true
		}
		for h := range o.states {
			states[h] = true
		}
		for k, v := range o.counts {
			counts[k] += v
		}
		if len(o.samples) > 2 && len(engines) > 1 {
			o.samples = o.samples[:2]
		}
		samples = append(samples, o.samples...)
		vioLines = append(vioLines, o.vioLines...)
		nviol += o.nviol
		ename := e.Engine
		if e.mode != "" {
			ename += "-" + e.mode
		}
		perEngine[ename] = map[string]interface{}{"runs": o.total.Runs, "distinct_nontrivial": len(o.hashes), "rule": e.Rule, "oracles": e.Oracles, "components": e.Components, "probes": o.total.Probes, "faults_fired": o.total.Faults}
	}
	wall := time.Since(start).Seconds()
	// evidence
	faultsFired := map[string]int{}
	for k, v := range total.Faults {
		faultsFired[k] = v
	}
	cov := map[string]interface{}{
		"evaluations":            total.Runs,
		"distinct_nontrivial":    len(hashes),
		"rule":                   pi.Rule,
		"samples":                samples,
		"exhaustive":             false,
		"runs_per_hour":          int(float64(total.Runs) / wall * 3600),
		"simulated_steps":        total.Steps,
		"simulated_time_s":       float64(total.SimNanos) / 1e9,
		"fault_kinds_fired":      faultsFired,
		"probes":                 total.Probes,
		"distinct_state_digests": len(states),
		"components":             pi.Components,
		"violation_classes":      counts,
		"tainted_by_known":       total.Known,
		"inconclusive":           total.Inconcl,
		"workers":                workers,
		"budget_s":               budget,
		"batch_seed":             seed,
		"oracles":                pi.Oracles,
		"engines":                perEngine,
		"worker_deaths_below_go_runtime_repeated_clean": atomic.LoadInt64(&toolCrashes),
	}
	if len(samples) == 0 {
		cov["samples"] = []interface{}{map[string]interface{}{"note": "no violation-free non-trivial run in this batch to sample"}}
	}
	// the result of the last determinism self-test of this property (./check --selftest, recorded in
	// selftest.json together with the commit it ran at; it is a separate, longer command)
	if b, err := os.ReadFile(filepath.Join(verifDir, "selftest.json")); err == nil {
		var st map[string]interface{}
		if json.Unmarshal(b, &st) == nil {
			if e, ok := st[prop]; ok {
				cov["determinism_selftest"] = e
			}
		}
	}
	ev := evidence{PropertyID: prop, Tier: tier, Seed: seed, Level: pi.Level, Coverage: cov, Assumptions: pi.Assumptions, WallS: wall, Violations: nviol}
	_ = os.MkdirAll(filepath.Join(outDir, "evidence"), 0o755)
	eb, _ := json.MarshalIndent(ev, "", " ")
	if err := os.WriteFile(filepath.Join(outDir, "evidence", prop+".json"), eb, 0o644); err != nil {
		harnessFail("cannot write evidence: %v", err)
	}
	if len(engines) > 1 {
		eb, _ := json.Marshal(perEngineBrief(perEngine))
		fmt.Printf("%s engines: %s\n", prop, eb)
	}
	fmt.Printf("%s %s: %d runs (%d distinct non-trivial traces, %d state digests) in %.1fs; %d violation classes; faults fired %v\n",
		prop, tier, total.Runs, len(hashes), len(states), wall, nviol, faultsFired)
	for _, l := range vioLines {
		fmt.Println(l)
	}
	if nviol > 0 {
		return 1
	}
	if total.Runs == 0 {
		harnessFail("no run was executed")
	}
	return 0
}

func main() {
	if len(os.Args) < 2 {
		fmt.Fprintln(os.Stderr, "usage: verif check <property> <quick|thorough> | verif replay <file> | verif selftest <engine>")
		os.Exit(2)
	}
	switch os.Args[1] {
	case "check":
		if len(os.Args) < 4 {
			harnessFail("usage: verif check <property> <tier>")
		}
		os.Exit(doCheck(os.Args[2], os.Args[3]))
	case "replay":
		os.Exit(doReplay(os.Args[2]))
	case "selftest":
		os.Exit(doSelftest(os.Args[2:]))
	case "scenario":
		os.Exit(doScenario(os.Args[2:]))
	case "props":
		var ids []string
		for k := range props {
			ids = append(ids, k)
		}
		sort.Strings(ids)
		fmt.Println(strings.Join(ids, " "))
	default:
		harnessFail("unknown command %s", os.Args[1])
	}
}

var _ = bytes.NewReader

func perEngineBrief(m map[string]interface{}) map[string]interface{} {
	out := map[string]interface{}{}
	for k, v := range m {
		if mm, ok := v.(map[string]interface{}); ok {
			out[k] = map[string]interface{}{"runs": mm["runs"], "distinct_nontrivial": mm["distinct_nontrivial"]}
		}
	}
	return out
}

// ---------------------------------------------------------------- scenario demonstrations

// A scenario is a hand-written engine-B plan with expectations about plain end-of-run observations
// (client views, stored log, checkpoints, publishes). It is the form in which demonstrations of
// seeded changes that need a MongoDB are kept (seeded/<id>/scenario.json): it passes on the unchanged
// tree and fails with the change, and it does not use any oracle of the checks.
type scenarioFile struct {
	Property string            `json:"property"`
	Describe string            `json:"describe"`
	Config   json.RawMessage   `json:"config"`
	Events   []json.RawMessage `json:"events"`
	Expect   map[string]string `json:"expect"`
}

func doScenario(args []string) int {
	if len(args) < 1 {
		harnessFail("usage: verif scenario <file> [-v]")
	}
	b, err := os.ReadFile(args[0])
	if err != nil {
		harnessFail("%v", err)
	}
	var sf scenarioFile
	if err := json.Unmarshal(b, &sf); err != nil {
		harnessFail("bad scenario file: %v", err)
	}
	var cfg map[string]interface{}
	_ = json.Unmarshal(sf.Config, &cfg)
	cfg["observe"] = true
	if _, ok := cfg["oracles"]; !ok {
		cfg["oracles"] = map[string]bool{}
	}
	cb, _ := json.Marshal(cfg)
	pi := props[sf.Property]
	if pi == nil || (pi.Engine != "B" && pi.Also == nil) {
		harnessFail("scenario needs an engine-B property")
	}
	if pi.Engine != "B" {
		pi = pi.Also
	}
	plan := &kernel.Plan{Engine: "B", Property: sf.Property, Seed: 1, Config: cb, Events: sf.Events}
	scratch, _ := os.MkdirTemp("", "orda-verif.")
	defer os.RemoveAll(scratch)
	verbose := len(args) > 1 && args[1] == "-v"
	outs, err := execPlans(scratch, pi, []*kernel.Plan{plan}, nil, verbose, 1)
	if err != nil {
		harnessFail("%v", err)
	}
	o := outs[0]
	if o.Crash != nil {
		fmt.Printf("SCENARIO FAIL: the process died: %s\n%s\n", o.Crash.Viol.Message, o.Crash.Tail)
		return 1
	}
	if o.Res == nil {
		harnessFail("no result")
	}
	if verbose {
		for _, l := range o.Res.Log {
			fmt.Println("  ", l)
		}
	}
	if o.Res.Obs == nil {
		fmt.Printf("SCENARIO FAIL: the run ended before its observations were taken (violation: %v)\n", o.Res.Violation)
		return 1
	}
	keys := make([]string, 0, len(o.Res.Obs))
	for k := range o.Res.Obs {
		keys = append(keys, k)
	}
	sort.Strings(keys)
	if verbose || len(sf.Expect) == 0 {
		for _, k := range keys {
			fmt.Printf("  obs %-28s %s\n", k, o.Res.Obs[k])
		}
	}
	bad := 0
	ek := make([]string, 0, len(sf.Expect))
	for k := range sf.Expect {
		ek = append(ek, k)
	}
	sort.Strings(ek)
	for _, k := range ek {
		if got := o.Res.Obs[k]; got != sf.Expect[k] {
			bad++
			fmt.Printf("  MISMATCH %s\n    expected: %s\n    observed: %s\n", k, sf.Expect[k], got)
		}
	}
	if bad > 0 {
		fmt.Printf("SCENARIO FAIL: %d of %d expectations not met\n", bad, len(sf.Expect))
		return 1
	}
	fmt.Printf("SCENARIO PASS: %d expectations met\n", len(sf.Expect))
	return 0
}
