package main

import (
	"fmt"
	"os"
	"time"

	"verif/sim/enga"
	"verif/sim/engb"
	"verif/sim/engc"
	"verif/sim/kernel"
)

type propInfo struct {
	Engine      string
	Level       string
	Race        bool
	QuickS      int
	ThoroughS   int
	PerRunS     int
	Twice       int
	Rule        string
	Oracles     []string
	Assumptions []string
	Components  map[string]string
	Instr       bool      // runs on the scratch copy with inserted scheduling points (non-race build)
	Also        *propInfo // a second engine that also decides this property
	RaceAlso    bool      // half of the budget runs the same engine in a race-detector build (other seeds)
	// systematic fault placement over small base scenarios (engine B), run as a second batch of the check
	Enum              bool
	EnumRule          string
	EnumPairsQuick    int
	EnumPairsThorough int
	mode              string
}

func (p *propInfo) perRun() time.Duration {
	if p.PerRunS > 0 {
		return time.Duration(p.PerRunS) * time.Second
	}
	return 60 * time.Second
}

var compA = map[string]string{
	"orda datatypes (counter, map, list, document), operations, model, transaction/wired/snapshot layers, clientImpl, DatatypeManager (LOCAL_ONLY)": "real code",
	"server push-pull log":   "model: one append-only slice, deliveries in log order skipping own operations, subscribe response built as service_pushpull_datatype.go builds it",
	"network, MongoDB, MQTT": "not part of engine A",
}

var assumeA = []string{
	"ids come from the run's PRNG through the guarded hook simhook.UID (H1); logging is silenced through H9",
	"the delivery schedules generated are the ones one total log order allows: every replica receives foreign operations in log order, arbitrarily interleaved with its own calls, pushes may happen without pulls",
	"reference models in /verif/sim/ref are written from the property statements (LWW by (logical clock, client id), timestamped insertion tree, delete dominates, int32 sum) and are evaluated from the set of operations a replica has seen",
	"a clean batch is evidence over the sampled plans, not a proof",
}

const ruleA = "runs are plans generated from mix64(VERIF_SEED, property, run index): 20-60 (quick) / 30-400 (thorough) events over 1-4 real replicas (local calls incl. batches and nested values, transactions, pushes, partial deliveries, late joins, quiescent points, plus the property's special events). A run counts as non-trivial when %s; distinct = distinct trace hash (sequence of event kind, actor, call name, validity)."

var props = map[string]*propInfo{
	"C01": {Engine: "A", Level: "exploration", QuickS: 45, ThoroughS: 600, Twice: 50,
		Rule:    sprintf(ruleA, "a replica applied foreign operations while it (or another replica) held operations the other side had not seen"),
		Oracles: []string{"C01.quiescent-equal (all replicas and a log-replay copy agree on ToJSON, sizes, element reads at every quiescent point)", "C01.tracks-reference (every replica equals the reference of the operations it has seen after every step)", "C01.same-schedule-same-state (every 50th run executed twice in-process, event logs compared)", "C01.no-panic"}},
	"C02": {Engine: "A", Level: "exploration", QuickS: 45, ThoroughS: 600,
		Rule:    sprintf(ruleA, "a replica applied foreign operations while it (or another replica) held operations the other side had not seen (conflict-heavy preset: 1-2 keys, 0-1 hot positions, long unseen windows)"),
		Oracles: []string{"C02.winner-by-timestamp", "C02.siblings-newest-first-update-lww-delete-dominates", "C02.counter-sum-int32", "C02.document-outcome; each on every replica after every step and on the server's log-replay copy"}},
	"C03": {Engine: "A", Level: "exploration", QuickS: 45, ThoroughS: 600,
		Rule:    sprintf(ruleA, "at least three calls succeeded (single replica; ~20%% of calls carry invalid arguments: out-of-range/negative positions, zero counts, empty keys, nulls, nulls nested in values, wrong container kind, deleted containers through stale handles)"),
		Oracles: []string{"C03.return-matches-model", "C03.error-has-no-effect", "C03.no-panic", "C03.no-id-gap"}},
	"C04": {Engine: "A", Level: "exploration", QuickS: 45, ThoroughS: 600,
		Rule:    sprintf(ruleA, "a replica applied foreign operations while somebody held unseen operations (List, or a Document array; every element is a unique tag)"),
		Oracles: []string{"C04.exactly-once", "C04.no-resurrection", "C04.order-stable (global precedence relation over all observations of all replicas at all times)", "C04.local-insert-position"}},
	"C09": {Engine: "A", Level: "exploration", QuickS: 45, ThoroughS: 600,
		Rule:    sprintf(ruleA, "at least one transaction committed or rolled back"),
		Oracles: []string{"C09.rollback-exact", "C09.unit-contiguous", "C09.remote-all", "C09.remote-none (truncated unit delivered: nothing applied, error, no panic)", "C09.no-panic"}},
	"C10": {Engine: "A", Level: "exploration", QuickS: 45, ThoroughS: 600,
		Rule:    sprintf(ruleA, "a snapshot twin was made and at least one later step was mirrored on it"),
		Oracles: []string{"C10.twin-bisimilar (state, return values, emitted operations)", "C10.reexport-equivalent", "C10.export / C10.import do not fail"}},
	"C15": {Engine: "A", Level: "exploration", QuickS: 45, ThoroughS: 600,
		Rule:    sprintf(ruleA, "a replica applied foreign operations while somebody held unseen operations (batches up to 30 elements, failing calls, rollbacks; one plan in 600 is a wide-batch plan: a List on which one InsertMany creates 2^16+1..40 (a quarter: 2^15+1..40) elements, followed by 3-10 calls, pushes and deliveries of that and a second replica that address the far end of the batch, judged by the identity, reference and no-panic oracles)"),
		Oracles: []string{"C15.seq-gapless", "C15.after-everything-seen", "C15.total-order-on-run", "C15.identity-key-injective"}},
	"C19": {Engine: "A", Level: "exploration", QuickS: 45, ThoroughS: 600,
		Rule:    sprintf(ruleA, "at least one PatchByJSON produced a non-empty patch"),
		Oracles: []string{"C19.equals-target", "C19.atomic-unit", "C19.peers-converge", "C19.no-panic"}},
}

var compB = map[string]string{
	"orda client (clientImpl, DatatypeManager, SyncManager, NotifyManager, datatypes)":                                   "real code",
	"orda server: OrdaService (all RPCs), snapshot.Manager, mongodb.*, schema.*, utils.LocalLock, notification.Notifier": "real code",
	"mongo-go-driver v1.10.1 (BSON codec, pool, monitors, wire protocol)":                                                "real code, talking over net.Pipe",
	"MongoDB server": "stub: sim/simmongo (wire protocol OP_QUERY handshake + OP_MSG; standalone; ~15 commands; durable image; faults errBefore/errAfter/partial/drop)",
	"gRPC":           "stub: in-process transport implementing OrdaServiceClient; deep copy by protobuf both ways; per-call context cancelled on return; loss/duplication/late delivery",
	"MQTT broker":    "stub: per-subscriber FIFO, QoS 0",
	"Redis / RedisLock, REST gateway, server bootstrap": "not run (local-lock path as in resources/local-config.json)",
	"clock": "testing/synctest fake clock",
}

var assumeB = []string{
	"the MongoDB stand-in models the documented behaviour of the commands orda issues (pinned by sim/simmongo/stub_test.go against the real driver); it is not mongod; an unmodelled command aborts the run with exit 2",
	"one stimulus at a time followed by synctest.Wait(): the simulator decides which request is released, which pending database command is answered next (and with which fault), when a response or notification is delivered and when time advances; goroutines between two decisions run freely but only touch state ordered by those seams or by the SUT's own locks",
	"ids come from the run's PRNG (hook H1); gRPC, MQTT and MongoDB are reached through hooks H2-H5; the process-local lock registry is cleared at a simulated restart (H10)",
	"a clean batch is evidence over the sampled plans, not a proof",
}

const ruleB = "runs are plans generated from mix64(VERIF_SEED, property, run index): 1-5 real clients, 1-2 datatypes of mixed kinds, entry by create / subscribe / subscribe-or-create incl. late subscribers, 15-40 (quick) / 30-120 (thorough) events (local calls, transactions, Sync, simultaneous Syncs, time jumps from 1 ms to a day, plus the property's fault events), then heal + drain. Drawn per plan from a stream of its own: the order of the packs in requests and answers, which of the three optional handlers each datatype registers, the key names (k1.. / document-<n> / arbitrary), in half of the C05/C06/C12/C16 plans a read-only observer that pulls at the same moment as Sync calls. A run counts as non-trivial when %s; distinct = distinct trace hash (sequence of events and of every scheduling/fault decision)."

func init() {
	props["C20"] = propC20
	for id, p := range propsB {
		p.Engine = "B"
		p.Components = compB
		p.Assumptions = assumeB
		if p.QuickS == 0 {
			p.QuickS = 50
		}
		if p.ThoroughS == 0 {
			p.ThoroughS = 900
		}
		if p.Level == "" {
			p.Level = "exploration"
		}
		if existing, ok := props[id]; ok {
			existing.Also = p
			continue
		}
		props[id] = p
	}
	for _, p := range props {
		if p.Engine == "A" {
			p.Components = compA
			p.Assumptions = assumeA
		}
	}
}

func regenPlan(pi *propInfo, prop, tier string, seed uint64) *kernel.Plan {
	switch pi.Engine {
	case "A":
		return enga.Gen(prop, tier, seed)
	case "B":
		return engb.Gen(prop, tier, seed)
	case "C":
		return engc.Gen(prop, tier, seed)
	}
	return nil
}

func simplifications(p *kernel.Plan) []*kernel.Plan {
	switch p.Engine {
	case "A":
		return enga.Simplify(p)
	case "B":
		return engb.Simplify(p)
	case "C":
		return engc.Simplify(p)
	}
	return nil
}

func sprintf(f string, a ...interface{}) string { return fmtSprintf(f, a...) }

var fmtSprintf = fmt.Sprintf

var propC20 = &propInfo{Engine: "C", Level: "exploration", Race: false, Instr: true, RaceAlso: os.Getenv("VERIF_RACE_VARIANT") == "1", QuickS: 50, ThoroughS: 900, PerRunS: 120,
	Rule:    "runs are plans generated from mix64(VERIF_SEED, property, run index): 2-4 (quick) / 2-8 (thorough) goroutines with 2-12 scripted calls each (increments with distinct power-of-two deltas, gets, puts of unique values, removes, inserts of unique tags, transactions incl. failing ones whose body can be pre-empted between its calls) on ONE shared Counter / Map / List object, plus a sync goroutine calling Sync() against a model server that also feeds operations of a remote replica; a seeded scheduler decides at every scheduling point (hook H6: lock acquisition, the begin/unlock windows of the transaction layer, pack creation and application) who runs next. Non-trivial: >= 2 goroutines and > 10 scheduling decisions; distinct = distinct hash of the sequence of (task, site) decisions.",
	Oracles: []string{"C20.no-panic / process-crash (incl. runtime fatal errors such as unlock of an unlocked mutex)", "C20.no-deadlock", "C20.queued-once-in-order", "C20.tx-not-interleaved", "C20.no-lost-update (shared object == replay of the stream; counter == sum)", "C20.linearizable (porcupine, counter and map histories)"},
	Assumptions: []string{
		"the check runs on a scratch copy of the client library (bin/instr-src, made from /repo's working tree on every invocation) in which cmd/instr has inserted a scheduling point before every statement of internal/datatypes and internal/managers, plus the hand-placed points of hook H6; one in 2..32 (drawn per run) of the inserted points is a real hand-over. Pre-emption happens only at these points and at calls the harness makes: the explored interleavings are real ones but not all of them (code of other packages, e.g. the data structures under the transaction lock, runs atomically)",
		"race-detector reports are not judged: C20's statement speaks of lost updates, queueing order, interleaved transactions, deadlocks and panics, not of data races (C12's does, for the server). VERIF_RACE_VARIANT=1 runs half of the budget in a race-detector build of the same instrumented copy as a diagnostic (the scheduler's hand-over is a raw futex in //go:norace code, invisible to the detector); it is not part of the registered commands",
		"the server is a 40-line model (one log, duplicate rejection by client sequence number); MongoDB and the real server are engine B's business",
	},
	Components: map[string]string{
		"orda datatypes, transaction/wired layers, clientImpl, DatatypeManager, SyncManager (manual mode)": "real code, with H6 scheduling points",
		"server":    "model: one log per datatype, pull-before-push answer, duplicate rejection",
		"scheduler": "sim/engc: one goroutine runs at a time; futex baton; seeded choice",
	}}

// propC18C: the thread-level engine also decides the "realtime clients push by themselves" part of C18:
// user goroutines and every delivery goroutine the library starts are tasks of the scheduler, so the
// windows between a delivery's last look at the buffer and the release of its semaphore are explored.
var propC18C = &propInfo{Engine: "C", Level: "exploration", Instr: true, PerRunS: 120,
	Rule:        "engine C, realtime mode only: plans as for C20 (2-4 / 2-8 goroutines with scripted calls on ONE shared Counter / Map / List of a realtime client, plus a goroutine calling Sync()); every local operation starts a delivery goroutine of the library, which is a task of the seeded scheduler like the user goroutines (scheduling points inserted before every statement of internal/datatypes and internal/managers). Non-trivial: >= 2 goroutines and > 10 scheduling decisions; distinct = distinct hash of the sequence of (task, site) decisions.",
	Oracles:     []string{"C18.realtime-pushes-by-itself (all goroutines finished => nothing is left waiting to be pushed)", "C18.no-panic / no-deadlock"},
	Assumptions: propC20.Assumptions, Components: propC20.Components}

var propsB = map[string]*propInfo{
	"C05": {Rule: sprintf(ruleB, "at least two clients pushed and at least one exchange both pushed and pulled"),
		Oracles: []string{"C05.clients-identical", "C05.equals-log-replay", "C05.equals-server-rebuild (real snapshot.Manager.GetLatestDatatype)", "C05.remote-once-in-log-order", "C05.checkpoint-monotone", "C05.drain-terminates (<= 8 rounds)", "C06 log invariants after every event", "C05.every-call-returns", "C05.client-crash", "C06.handed-out-equals-stored (read-only observer)"}},
	"C06": {Rule: sprintf(ruleB, "at least two clients pushed and at least one exchange both pushed and pulled"),
		Oracles: []string{"C06.sseq-gapless", "C06.end-matches", "C06.every-pushed-op-once", "C06.client-order", "C06.checkpoint-sound", "C06.one-datatype-per-key", "C06.handed-out-equals-stored (what a read-only observer is handed for positions p+1..q is what the log holds there)", "C06.process-crash"}},
	"C07": {Level: "fault_enumeration", QuickS: 80, ThoroughS: 1200, Enum: true, EnumPairsQuick: 60, EnumPairsThorough: 600,
		EnumRule: "systematic batch: base scenarios (2-3 clients, 1-2 datatypes, 6-15 events quick / 6-24 thorough, fault-free, at least one transaction, every client syncs at the end) generated from mix64(VERIF_SEED, property/enum, index); for each base scenario EVERY single placement of {response dropped, request duplicated (copy after / racing with the original, two schedules), request lost} on every Sync exchange and of {previous request sent again, last response applied again, an earlier response applied late (two choices), response dropped} on every harness-driven exchange is executed as a run of its own, plus a seeded sample of pairs of placements on different exchanges (60 per scenario quick, 600 thorough); the base scenario itself runs with all oracles as the fault-free twin. Counters: probes enum-base-scenarios, enum-base-scenarios-completed, enum-placements.",
		Rule:     sprintf(ruleB, "at least one message fault fired (response dropped, request duplicated, request lost, response delivered late) and an exchange both pushed and pulled"),
		Oracles:  []string{"C07.same-as-fault-free (after heal+drain: clients identical, equal to log replay and server rebuild; every operation stored once, per-client order)", "C07.entry-as-if-delivered-once (a create/subscribe sent again gets in as it would have the first time)", "C07.log-gapless", "C07.client-crash", "C07.every-call-returns"}},
	"C08": {Level: "fault_enumeration", QuickS: 80, ThoroughS: 1200, Enum: true, EnumPairsQuick: 0, EnumPairsThorough: 150,
		EnumRule: "systematic batch: base scenarios (2-3 clients, 1-2 datatypes of any kind, 6-15 events quick / 6-24 thorough incl. bursts of >100 operations, at least one committed transaction, every client syncs at the end) generated from mix64(VERIF_SEED, property/enum, index) are first executed fault-free while recording every database command issued while serving each Sync exchange (including the background snapshot work after the answer); then for EVERY exchange r, EVERY command k of it and EVERY kind in {command error before applying, applied then connection lost, server crash before the command, server crash right after it, and for insert commands a partial ordered insert} the scenario is re-executed with that single fault, followed by heal, restart and retries by all clients (final drain); thorough adds 150 seeded pairs of placements per scenario. The base scenario itself runs with all oracles as the fault-free twin. Counters: probes enum-base-scenarios, enum-base-scenarios-completed, enum-placements.",
		Rule:     sprintf(ruleB, "at least one database fault fired (command error before/after applying, partial ordered insert, server crash before/after a command)"),
		Oracles:  []string{"C08.error-not-hang (every-call-returns)", "C08.client-crash / process-crash", "C08.acked-not-lost", "C08.log-gapless / exactly-once / recoverable", "C08.retry-converges"}},
	"C11": {Rule: sprintf(ruleB, "at least one stored snapshot document was compared with a replay of its log prefix"),
		Oracles: []string{"C11.snapshot-equals-prefix", "C11.userdoc-equals-prefix", "C11.version-monotone", "C11.rebuild-paths-agree (server rebuild == full replay)"}},
	"C12": {Race: true, QuickS: 60, Rule: sprintf(ruleB, "at least two requests were released at the same simulated instant and their database commands interleaved (race-detector build of a scratch copy of the server in which cmd/instr has inserted a scheduling point before every statement that touches a synchronisation object; in 2 of 3 plans these points are seams of the simulator, probe server-scheduling-point; orda's log lines are formatted and written to io.Discard; 2-4 / 2-8 clients; pairs of overlapping REST patches, registrations (ProcessClient) at the same moment as syncs, a read-only observer, late joiners 50 ms after a lock lease ran out while the database is slow, and seeded pack order are mixed into the traffic)"),
		Oracles: []string{"C12.log invariants (result equals some one-at-a-time order)", "C12.isolation (blocked-by-other-key; lock-timeout-behind-idle-holder: a lease runs out only behind a holder that waits for the database)", "C12.observer-sees-the-log", "C12.every-call-returns (incl. hang/<function>: orda code waiting for good on an object outside the simulated world, read from the goroutine stacks of a run that stopped)", "C12.one-client-per-id", "C12.process-crash", "C12.no-race (race detector over the explored deterministic schedules)"}},
	"C13": {Rule: sprintf(ruleB, "a datatype was entered by subscribe or subscribe-or-create, or an entry was refused"),
		Oracles: []string{"C13.refused-cleanly", "C13.one-datatype-per-key", "C13.first-state", "C13.subscribed-once (also for entries a realtime client makes by itself)", "C13.same-key-again (a client asked again for a key it holds: same type - the object it has; other type - nothing, and the error if it gave a handler)", "C13.process-crash (e.g. a handler that was not registered is called)"}},
	"C14": {Rule: sprintf(ruleB, "at least two clients pushed and at least one exchange both pushed and pulled (value-shape swarm; a third of the transactions carry a tag from a pool of quotes, backslashes, control characters, DEL and code points outside the BMP)"),
		Oracles: []string{"C14.store (operation read back from the store with the real BSON codec equals what the client sent)", "C14.peer (operation pulled by a peer equals what its issuer sent)", "C14.echo", "C14.same-effect / local-value-native (Go-native values incl. 64-bit integers beyond 2^53, pointers, structs, nil slices)", "C14.no-panic"}},
	"C16": {Rule: sprintf(ruleB, "at least one mutated request was sent by the rogue actor"),
		Oracles: []string{"C16.answered", "C16.server-alive", "C16.refused-changes-nothing (incl. what a read-only observer is handed)", "C16.log-stays-sound", "C16.error-reported / error-not-applied", "C16.client-survives"}},
	"C17": {Rule: sprintf(ruleB, "a request crossed collections or a collection was reset"),
		Oracles: []string{"C17.foreign-refused", "C17.same-key-independent", "C17.distinct-numbers", "C17.reset-exact", "C17.collection-number-stable / one-collection-per-name (two simultaneous CreateCollection calls with a client joining in between)"}},
	"C19": {Rule: sprintf(ruleB, "at least one REST PatchDocument was sent (absent key, existing document with and without stored snapshot, interleaved with client pushes)"),
		Oracles: []string{"C19.rest-response-equals-target", "C19.rest-ops-appended (replay of the stored log equals the target; C06 log invariants)", "C19.subscribers-converge", "C19.rest-refuses-non-document"}},
	"C18": {QuickS: 80, Also: propC18C, Rule: sprintf(ruleB, "at least one committing push was matched against the broker's publishes"),
		Oracles: []string{"C18.one-publish-per-commit (client pushes and REST patches)", "C18.no-publish-without-commit", "C18.realtime-converges (also with answers to realtime clients arriving late: holdresp)", "C18.own-notification-ignored"}},
}
