package main

import (
	"fmt"
	"time"

	"verif/sim/enga"
	"verif/sim/kernel"
)

type propInfo struct {
	Engine      string
	Level       string
	Race        bool
	QuickS      int
	ThoroughS   int
	PerRunS     int
	Twice       int
	Rule        string
	Oracles     []string
	Assumptions []string
	Components  map[string]string
}

func (p *propInfo) perRun() time.Duration {
	if p.PerRunS > 0 {
		return time.Duration(p.PerRunS) * time.Second
	}
	return 60 * time.Second
}

var compA = map[string]string{
	"orda datatypes (counter, map, list, document), operations, model, transaction/wired/snapshot layers, clientImpl, DatatypeManager (LOCAL_ONLY)": "real code",
	"server push-pull log":   "model: one append-only slice, deliveries in log order skipping own operations, subscribe response built as service_pushpull_datatype.go builds it",
	"network, MongoDB, MQTT": "not part of engine A",
}

var assumeA = []string{
	"ids come from the run's PRNG through the guarded hook simhook.UID (H1); logging is silenced through H9",
	"the delivery schedules generated are the ones one total log order allows: every replica receives foreign operations in log order, arbitrarily interleaved with its own calls, pushes may happen without pulls",
	"reference models in /verif/sim/ref are written from the property statements (LWW by (logical clock, client id), timestamped insertion tree, delete dominates, int32 sum) and are evaluated from the set of operations a replica has seen",
	"a clean batch is evidence over the sampled plans, not a proof",
}

const ruleA = "runs are plans generated from mix64(VERIF_SEED, property, run index): 20-60 (quick) / 30-400 (thorough) events over 1-4 real replicas (local calls incl. batches and nested values, transactions, pushes, partial deliveries, late joins, quiescent points, plus the property's special events). A run counts as non-trivial when %s; distinct = distinct trace hash (sequence of event kind, actor, call name, validity)."

var props = map[string]*propInfo{
	"C01": {Engine: "A", Level: "exploration", QuickS: 45, ThoroughS: 600, Twice: 50,
		Rule:    sprintf(ruleA, "a replica applied foreign operations while it (or another replica) held operations the other side had not seen"),
		Oracles: []string{"C01.quiescent-equal (all replicas and a log-replay copy agree on ToJSON, sizes, element reads at every quiescent point)", "C01.tracks-reference (every replica equals the reference of the operations it has seen after every step)", "C01.same-schedule-same-state (every 50th run executed twice in-process, event logs compared)", "C01.no-panic"}},
	"C02": {Engine: "A", Level: "exploration", QuickS: 45, ThoroughS: 600,
		Rule:    sprintf(ruleA, "a replica applied foreign operations while it (or another replica) held operations the other side had not seen (conflict-heavy preset: 1-2 keys, 0-1 hot positions, long unseen windows)"),
		Oracles: []string{"C02.winner-by-timestamp", "C02.siblings-newest-first-update-lww-delete-dominates", "C02.counter-sum-int32", "C02.document-outcome; each on every replica after every step and on the server's log-replay copy"}},
	"C03": {Engine: "A", Level: "exploration", QuickS: 45, ThoroughS: 600,
		Rule:    sprintf(ruleA, "at least three calls succeeded (single replica; ~20%% of calls carry invalid arguments: out-of-range/negative positions, zero counts, empty keys, nulls, nulls nested in values, wrong container kind, deleted containers through stale handles)"),
		Oracles: []string{"C03.return-matches-model", "C03.error-has-no-effect", "C03.no-panic", "C03.no-id-gap"}},
	"C04": {Engine: "A", Level: "exploration", QuickS: 45, ThoroughS: 600,
		Rule:    sprintf(ruleA, "a replica applied foreign operations while somebody held unseen operations (List, or a Document array; every element is a unique tag)"),
		Oracles: []string{"C04.exactly-once", "C04.no-resurrection", "C04.order-stable (global precedence relation over all observations of all replicas at all times)", "C04.local-insert-position"}},
	"C09": {Engine: "A", Level: "exploration", QuickS: 45, ThoroughS: 600,
		Rule:    sprintf(ruleA, "at least one transaction committed or rolled back"),
		Oracles: []string{"C09.rollback-exact", "C09.unit-contiguous", "C09.remote-all", "C09.remote-none (truncated unit delivered: nothing applied, error, no panic)", "C09.no-panic"}},
	"C10": {Engine: "A", Level: "exploration", QuickS: 45, ThoroughS: 600,
		Rule:    sprintf(ruleA, "a snapshot twin was made and at least one later step was mirrored on it"),
		Oracles: []string{"C10.twin-bisimilar (state, return values, emitted operations)", "C10.reexport-equivalent", "C10.export / C10.import do not fail"}},
	"C15": {Engine: "A", Level: "exploration", QuickS: 45, ThoroughS: 600,
		Rule:    sprintf(ruleA, "a replica applied foreign operations while somebody held unseen operations (batches up to 30 elements, failing calls, rollbacks)"),
		Oracles: []string{"C15.seq-gapless", "C15.after-everything-seen", "C15.total-order-on-run", "C15.identity-key-injective"}},
	"C19": {Engine: "A", Level: "exploration", QuickS: 45, ThoroughS: 600,
		Rule:    sprintf(ruleA, "at least one PatchByJSON produced a non-empty patch"),
		Oracles: []string{"C19.equals-target", "C19.atomic-unit", "C19.peers-converge", "C19.no-panic"}},
}

func init() {
	for _, p := range props {
		if p.Engine == "A" {
			p.Components = compA
			p.Assumptions = assumeA
		}
	}
}

func regenPlan(pi *propInfo, prop, tier string, seed uint64) *kernel.Plan {
	switch pi.Engine {
	case "A":
		return enga.Gen(prop, tier, seed)
	}
	return nil
}

func simplifications(p *kernel.Plan) []*kernel.Plan {
	switch p.Engine {
	case "A":
		return enga.Simplify(p)
	}
	return nil
}

func sprintf(f string, a ...interface{}) string { return fmtSprintf(f, a...) }

var fmtSprintf = fmt.Sprintf
