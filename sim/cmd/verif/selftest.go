package main

import (
	"fmt"
	"os"
	"path/filepath"
	"sort"

	"verif/sim/worker"
)

// doSelftest: determinism self-test. For each listed property, the same run indices are
// executed in several separate processes under several GOMAXPROCS values; the per-run
// event-log digests must be identical everywhere.
func doSelftest(args []string) int {
	if len(args) < 1 {
		harnessFail("usage: verif selftest <property> [runs]")
	}
	prop := args[0]
	pi := props[prop]
	if pi == nil {
		harnessFail("unknown property")
	}
	runs := 40
	if len(args) > 1 {
		fmt.Sscan(args[1], &runs)
	}
	scratch, _ := os.MkdirTemp("", "orda-verif.")
	defer os.RemoveAll(scratch)
	type key struct{ idx int }
	digests := map[int]map[uint64]int{}
	procs := 0
	for _, gmp := range []string{"1", "4", "16"} {
		for rep := 0; rep < 10; rep++ {
			os.Setenv("VERIF_WORKER_GOMAXPROCS", gmp)
			job := worker.Job{Engine: pi.Engine, Property: prop, Tier: "quick", Mode: "seeds", BatchSeed: uint64(envInt("VERIF_SEED", 1)), First: 0, Stride: 1, MaxRuns: runs, Samples: 1 << 30}
			if os.Getenv("VERIF_SELFTEST_ENUM") != "" && pi.Enum {
				// the systematic batch: base scenarios and their placements
				job.Mode, job.MaxPairs, job.MaxRuns = "enum", 5, runs*3
			}
			sub := filepath.Join(scratch, fmt.Sprintf("g%s-%d", gmp, rep))
			_ = os.MkdirAll(sub, 0o755)
			br, err := runJob(sub, 0, job, pi, pi.perRun())
			if err != nil {
				harnessFail("%v", err)
			}
			procs++
			for _, l := range br.Lines {
				if l.K == "run" && l.Res != nil {
					if digests[l.I] == nil {
						digests[l.I] = map[uint64]int{}
					}
					digests[l.I][l.Res.StateHash]++
				}
			}
		}
	}
	bad := 0
	var idxs []int
	for i := range digests {
		idxs = append(idxs, i)
	}
	sort.Ints(idxs)
	for _, i := range idxs {
		if len(digests[i]) != 1 {
			bad++
			fmt.Printf("run %d: %d different event-log digests across processes: %v\n", i, len(digests[i]), digests[i])
		}
	}
	fmt.Printf("selftest %s: %d run indices x %d processes (GOMAXPROCS 1,4,16); %d indices diverged\n", prop, len(idxs), procs, bad)
	if bad > 0 {
		return 1
	}
	return 0
}
