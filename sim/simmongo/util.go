package simmongo

import "regexp"

var oidRe = regexp.MustCompile(`\{"\$oid":"[0-9a-f]{24}"\}`)
