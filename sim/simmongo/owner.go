package simmongo

import (
	"bytes"
	"net"
	"runtime"
	"strconv"
	"sync"
)

// Attribution of database commands to the request that caused them. The driver writes a command on
// the goroutine that executes the operation, i.e. on a goroutine of the request handler. The client
// end of every pipe is wrapped; its Write looks at the writing goroutine: its id, or the id of the
// goroutine that created it (printed by runtime.Stack as "created by ... in goroutine N"),
// transitively, is looked up in a registry that the simulator fills when it starts a request.

var (
	ownerMu  sync.Mutex
	gidOwner = map[uint64]string{}
)

// ResetOwners forgets all registrations (start of a run).
func ResetOwners() {
	ownerMu.Lock()
	gidOwner = map[uint64]string{}
	ownerMu.Unlock()
}

// RegisterOwner names the request the calling goroutine (and everything it spawns) works for.
func RegisterOwner(owner string) {
	gid, _ := gidAndParent()
	ownerMu.Lock()
	gidOwner[gid] = owner
	ownerMu.Unlock()
}

func gidAndParent() (gid, parent uint64) {
	buf := make([]byte, 8192)
	n := runtime.Stack(buf, false)
	b := buf[:n]
	// "goroutine 123 [running...]:\n"
	if bytes.HasPrefix(b, []byte("goroutine ")) {
		rest := b[len("goroutine "):]
		if i := bytes.IndexByte(rest, ' '); i > 0 {
			gid, _ = strconv.ParseUint(string(rest[:i]), 10, 64)
		}
	}
	if i := bytes.LastIndex(b, []byte(" in goroutine ")); i >= 0 {
		rest := b[i+len(" in goroutine "):]
		j := 0
		for j < len(rest) && rest[j] >= '0' && rest[j] <= '9' {
			j++
		}
		parent, _ = strconv.ParseUint(string(rest[:j]), 10, 64)
	}
	return
}

// currentOwner resolves the owner of the calling goroutine ("" when it belongs to no request).
func currentOwner() string {
	gid, parent := gidAndParent()
	ownerMu.Lock()
	defer ownerMu.Unlock()
	if o, ok := gidOwner[gid]; ok {
		return o
	}
	if o, ok := gidOwner[parent]; ok {
		gidOwner[gid] = o
		return o
	}
	return ""
}

// CurrentOwner is currentOwner for the other seams of the simulator (MQTT publishes).
func CurrentOwner() string { return currentOwner() }

// ownedConn is the driver's end of a pipe.
type ownedConn struct {
	net.Conn
	mu    sync.Mutex
	owner string
}

func (c *ownedConn) Write(b []byte) (int, error) {
	o := currentOwner()
	c.mu.Lock()
	c.owner = o
	c.mu.Unlock()
	return c.Conn.Write(b)
}

func (c *ownedConn) lastOwner() string {
	c.mu.Lock()
	defer c.mu.Unlock()
	return c.owner
}
