package simmongo

import (
	"context"
	"encoding/json"
	"fmt"
	"io"
	"net"
	"sort"
	"strings"
	"sync"
	"sync/atomic"
	"time"

	"go.mongodb.org/mongo-driver/bson"
	"go.mongodb.org/mongo-driver/bson/primitive"
	"go.mongodb.org/mongo-driver/x/bsonx/bsoncore"
	"go.mongodb.org/mongo-driver/x/mongo/driver/wiremessage"
)

// Fault kinds the simulator can attach to a pending command.
const (
	FaultNone      = ""
	FaultErrBefore = "errBefore" // command error, nothing applied
	FaultErrAfter  = "errAfter"  // applied, then the connection is closed without a reply
	FaultPartial   = "partial"   // multi-document insert: first half applied, then error
	FaultDropConn  = "dropConn"  // connection closed, nothing applied
)

// Pending is a command that has arrived and waits for the simulator's decision.
type Pending struct {
	Seq      uint64
	Instance int
	DB       string
	Name     string // command name
	Coll     string
	Key      string // canonical content (volatile fields removed)
	Write    bool
	Owner    string // set by the simulator
	cmd      bson.D
	decide   chan string
}

// Server is the wire-protocol front of a Store.
type Server struct {
	mu       sync.Mutex
	Store    *Store
	Auto     bool // answer immediately (no gating)
	pending  []*Pending
	seq      uint64
	conns    map[*conn]bool
	dead     map[int]bool // crashed orda-server instances
	gap      string
	Commands map[string]int
	reqID    int32
	curOwner string
	cursors  map[int64]*cursor
	nextCur  int64
	OnArrive func(p *Pending) // optional, called with the lock held when a command becomes pending
}

// cursor holds what a find has not returned yet (MongoDB returns 101 documents in the first batch
// unless told otherwise; the rest comes with getMore).
type cursor struct {
	ns   string
	rest bson.A
}

type conn struct {
	c        net.Conn
	instance int
	peer     *ownedConn
}

func NewServer(st *Store) *Server {
	return &Server{Store: st, conns: map[*conn]bool{}, dead: map[int]bool{}, Commands: map[string]int{}}
}

// Gap reports the first thing the stub was asked to do that it does not model.
func (s *Server) Gap() string { s.mu.Lock(); defer s.mu.Unlock(); return s.gap }

func (s *Server) setGap(format string, a ...interface{}) {
	if s.gap == "" {
		s.gap = fmt.Sprintf(format, a...)
	}
}

// Dialer returns a ContextDialer for one orda-server instance.
type Dialer struct {
	S        *Server
	Instance int
}

func (d *Dialer) DialContext(ctx context.Context, network, address string) (net.Conn, error) {
	d.S.mu.Lock()
	if d.S.dead[d.Instance] {
		d.S.mu.Unlock()
		// a dead peer is noticed after a (simulated) while, not instantly: an instant refusal makes
		// the driver's monitor and server selection chase each other without time passing
		select {
		case <-ctx.Done():
		case <-time.After(2 * time.Second):
		}
		return nil, fmt.Errorf("simmongo: instance %d is down", d.Instance)
	}
	a, b := net.Pipe()
	oc := &ownedConn{Conn: a}
	c := &conn{c: b, instance: d.Instance, peer: oc}
	d.S.conns[c] = true
	d.S.mu.Unlock()
	go d.S.serve(c)
	return oc, nil
}

// KillInstance closes every connection of an orda-server instance and refuses new ones.
func (s *Server) KillInstance(i int) {
	s.mu.Lock()
	s.dead[i] = true
	var cs []*conn
	for c := range s.conns {
		if c.instance == i {
			cs = append(cs, c)
		}
	}
	// pending commands of that instance are dropped unanswered
	var keep []*Pending
	for _, p := range s.pending {
		if p.Instance == i {
			close(p.decide)
		} else {
			keep = append(keep, p)
		}
	}
	s.pending = keep
	s.mu.Unlock()
	for _, c := range cs {
		c.c.Close()
	}
}

// CloseAll closes all connections (end of run).
func (s *Server) CloseAll() {
	s.mu.Lock()
	var cs []*conn
	for c := range s.conns {
		cs = append(cs, c)
	}
	for _, p := range s.pending {
		close(p.decide)
	}
	s.pending = nil
	s.mu.Unlock()
	for _, c := range cs {
		c.c.Close()
	}
}

// SetOwner names the stimulus that commands arriving from now on belong to.
func (s *Server) SetOwner(o string) { s.mu.Lock(); s.curOwner = o; s.mu.Unlock() }

// PendingList returns the pending commands sorted canonically (owner, content, arrival).
func (s *Server) PendingList() []*Pending {
	s.mu.Lock()
	defer s.mu.Unlock()
	out := append([]*Pending{}, s.pending...)
	sort.SliceStable(out, func(i, j int) bool {
		if out[i].Owner != out[j].Owner {
			return out[i].Owner < out[j].Owner
		}
		if out[i].Key != out[j].Key {
			return out[i].Key < out[j].Key
		}
		return out[i].Seq < out[j].Seq
	})
	return out
}

// Answer lets a pending command proceed with the given fault decision.
func (s *Server) Answer(p *Pending, fault string) {
	s.mu.Lock()
	for i, q := range s.pending {
		if q == p {
			s.pending = append(s.pending[:i], s.pending[i+1:]...)
			break
		}
	}
	s.mu.Unlock()
	p.decide <- fault
}

func readFull(c net.Conn, n int) ([]byte, error) {
	b := make([]byte, n)
	_, err := io.ReadFull(c, b)
	return b, err
}

func (s *Server) serve(c *conn) {
	defer func() {
		c.c.Close()
		s.mu.Lock()
		delete(s.conns, c)
		s.mu.Unlock()
	}()
	for {
		hdr, err := readFull(c.c, 16)
		if err != nil {
			return
		}
		length, reqID, _, opcode, _, _ := wiremessage.ReadHeader(hdr)
		if length < 16 || length > 64<<20 {
			return
		}
		body, err := readFull(c.c, int(length)-16)
		if err != nil {
			return
		}
		switch opcode {
		case wiremessage.OpQuery:
			_, rem, _ := wiremessage.ReadQueryFlags(body)
			_, rem, _ = wiremessage.ReadQueryFullCollectionName(rem)
			_, rem, _ = wiremessage.ReadQueryNumberToSkip(rem)
			_, rem, _ = wiremessage.ReadQueryNumberToReturn(rem)
			reply := s.helloDoc()
			rb, _ := bson.Marshal(reply)
			var out []byte
			idx, out := wiremessage.AppendHeaderStart(out, atomic.AddInt32(&s.reqID, 1), reqID, wiremessage.OpReply)
			out = wiremessage.AppendReplyFlags(out, 0)
			out = wiremessage.AppendReplyCursorID(out, 0)
			out = wiremessage.AppendReplyStartingFrom(out, 0)
			out = wiremessage.AppendReplyNumberReturned(out, 1)
			out = append(out, rb...)
			out = bsoncore.UpdateLength(out, idx, int32(len(out)))
			if _, err := c.c.Write(out); err != nil {
				return
			}
		case wiremessage.OpMsg:
			_, rem, ok := wiremessage.ReadMsgFlags(body)
			if !ok {
				return
			}
			var cmd bson.D
			seqs := map[string]bson.A{}
			for len(rem) > 0 {
				var st wiremessage.SectionType
				st, rem, ok = wiremessage.ReadMsgSectionType(rem)
				if !ok {
					return
				}
				if st == wiremessage.SingleDocument {
					var d bsoncore.Document
					d, rem, ok = wiremessage.ReadMsgSectionSingleDocument(rem)
					if !ok {
						return
					}
					if err := bson.Unmarshal(d, &cmd); err != nil {
						return
					}
				} else {
					var id string
					var docs []bsoncore.Document
					id, docs, rem, ok = wiremessage.ReadMsgSectionDocumentSequence(rem)
					if !ok {
						return
					}
					for _, d := range docs {
						var x bson.D
						if err := bson.Unmarshal(d, &x); err != nil {
							return
						}
						seqs[id] = append(seqs[id], x)
					}
				}
			}
			for id, arr := range seqs {
				cmd = append(cmd, bson.E{Key: id, Value: arr})
			}
			reply, closeAfter := s.handle(c, cmd)
			if reply == nil {
				return // connection dropped by fault or shutdown
			}
			rb, err := bson.Marshal(reply)
			if err != nil {
				s.mu.Lock()
				s.setGap("cannot marshal reply: %v", err)
				s.mu.Unlock()
				return
			}
			var out []byte
			idx, out := wiremessage.AppendHeaderStart(out, atomic.AddInt32(&s.reqID, 1), reqID, wiremessage.OpMsg)
			out = wiremessage.AppendMsgFlags(out, 0)
			out = wiremessage.AppendMsgSectionType(out, wiremessage.SingleDocument)
			out = append(out, rb...)
			out = bsoncore.UpdateLength(out, idx, int32(len(out)))
			if _, err := c.c.Write(out); err != nil {
				return
			}
			if closeAfter {
				return
			}
		default:
			s.mu.Lock()
			s.setGap("opcode %v not modelled", opcode)
			s.mu.Unlock()
			return
		}
	}
}

func (s *Server) helloDoc() bson.D {
	return bson.D{
		{Key: "ismaster", Value: true},
		{Key: "isWritablePrimary", Value: true},
		{Key: "maxBsonObjectSize", Value: int32(16 * 1024 * 1024)},
		{Key: "maxMessageSizeBytes", Value: int32(48000000)},
		{Key: "maxWriteBatchSize", Value: int32(100000)},
		{Key: "localTime", Value: primitive.NewDateTimeFromTime(s.Store.Now())},
		{Key: "logicalSessionTimeoutMinutes", Value: int32(30)},
		{Key: "connectionId", Value: int32(1)},
		{Key: "minWireVersion", Value: int32(0)},
		{Key: "maxWireVersion", Value: int32(13)},
		{Key: "readOnly", Value: false},
		{Key: "ok", Value: float64(1)},
	}
}

var volatileFields = map[string]bool{"lsid": true, "$clusterTime": true, "txnNumber": true, "$readPreference": true, "$db": true}

func canonCmd(cmd bson.D) string {
	var f bson.D
	for _, e := range cmd {
		if !volatileFields[e.Key] {
			f = append(f, e)
		}
	}
	b, err := bson.MarshalExtJSON(f, false, false)
	if err != nil {
		return fmt.Sprint(f)
	}
	// Go maps inside commands are encoded in random key order: sort keys
	var x interface{}
	if json.Unmarshal(b, &x) == nil {
		if c, err := json.Marshal(x); err == nil {
			b = c
		}
	}
	s := string(b)
	// generated ObjectIDs are volatile (orda's createCollection inserts and deletes an empty document)
	return oidRe.ReplaceAllString(s, `{"$oid":"*"}`)
}

func errDoc(code int32, name, msg string) bson.D {
	return bson.D{{Key: "ok", Value: float64(0)}, {Key: "errmsg", Value: msg}, {Key: "code", Value: code}, {Key: "codeName", Value: name}}
}

func okDoc(extra ...bson.E) bson.D {
	d := bson.D{}
	d = append(d, extra...)
	return append(d, bson.E{Key: "ok", Value: float64(1)})
}

// handle executes one command; returns (nil,_) when the connection must be dropped.
func (s *Server) handle(c *conn, cmd bson.D) (bson.D, bool) {
	if len(cmd) == 0 {
		return errDoc(59, "CommandNotFound", "empty command"), false
	}
	name := cmd[0].Key
	db := ""
	if v, ok := get(cmd, "$db"); ok {
		db, _ = v.(string)
	}
	lname := strings.ToLower(name)
	switch lname {
	case "hello", "ismaster":
		return s.helloDoc(), false
	case "ping":
		return okDoc(), false
	case "endsessions":
		return okDoc(), false
	case "buildinfo":
		return okDoc(bson.E{Key: "version", Value: "5.0.0"}), false
	}
	collName, _ := cmd[0].Value.(string)
	if s.cursors == nil {
		s.mu.Lock()
		if s.cursors == nil {
			s.cursors = map[int64]*cursor{}
		}
		s.mu.Unlock()
	}
	write := map[string]bool{"insert": true, "update": true, "delete": true, "findandmodify": true, "createindexes": true, "drop": true}[lname]
	fault := FaultNone
	s.mu.Lock()
	s.Commands[lname]++
	auto := s.Auto
	if s.dead[c.instance] {
		s.mu.Unlock()
		return nil, true
	}
	var p *Pending
	if !auto {
		s.seq++
		p = &Pending{Seq: s.seq, Instance: c.instance, DB: db, Name: lname, Coll: collName, Key: canonCmd(cmd), Write: write, Owner: c.peer.lastOwner(), cmd: cmd, decide: make(chan string)}
		s.pending = append(s.pending, p)
		if s.OnArrive != nil {
			s.OnArrive(p)
		}
	}
	s.mu.Unlock()
	if p != nil {
		f, ok := <-p.decide
		if !ok {
			return nil, true
		}
		fault = f
	}
	s.mu.Lock()
	defer s.mu.Unlock()
	if s.dead[c.instance] {
		return nil, true
	}
	switch fault {
	case FaultErrBefore:
		return errDoc(14031, "OutOfDiskSpace", "simulated storage failure before applying "+lname), false
	case FaultDropConn:
		return nil, true
	}
	reply := s.execute(db, lname, collName, cmd, fault == FaultPartial)
	if fault == FaultErrAfter {
		return nil, true
	}
	return reply, false
}

func asD(v interface{}) bson.D {
	if d, ok := v.(bson.D); ok {
		return d
	}
	return nil
}

func asInt(v interface{}) int64 {
	f, i, isInt, ok := isNumber(v)
	if !ok {
		return 0
	}
	if isInt {
		return i
	}
	return int64(f)
}

func asBool(v interface{}) bool {
	switch x := v.(type) {
	case bool:
		return x
	case int32, int64, float64:
		return asInt(x) != 0
	}
	return false
}

// execute applies a command to the durable image (lock held).
func (s *Server) execute(db, name, collName string, cmd bson.D, partial bool) bson.D {
	st := s.Store
	switch name {
	case "insert":
		docsV, _ := get(cmd, "documents")
		docs, _ := docsV.(bson.A)
		c := st.coll(db, collName, true)
		n := 0
		var werrs bson.A
		limit := len(docs)
		if partial && len(docs) > 1 {
			limit = len(docs) / 2
		}
		for i, dv := range docs {
			if i >= limit {
				werrs = append(werrs, bson.D{{Key: "index", Value: int32(i)}, {Key: "code", Value: int32(14031)}, {Key: "errmsg", Value: "simulated storage failure in the middle of an ordered insert"}})
				break
			}
			d := normalise(copyDoc(asD(dv))).(bson.D)
			id, has := get(d, "_id")
			if !has {
				id = primitive.NewObjectID()
				d = append(bson.D{{Key: "_id", Value: id}}, d...)
			}
			dup := false
			for _, e := range c.Docs {
				if eid, _ := get(e, "_id"); equalValue(eid, id) {
					dup = true
					break
				}
			}
			if dup {
				werrs = append(werrs, bson.D{{Key: "index", Value: int32(i)}, {Key: "code", Value: int32(11000)},
					{Key: "errmsg", Value: fmt.Sprintf("E11000 duplicate key error collection: %s.%s index: _id_ dup key: { _id: %v }", db, collName, id)}})
				break // ordered
			}
			c.Docs = append(c.Docs, d)
			n++
		}
		if partial && len(docs) <= 1 {
			return errDoc(14031, "OutOfDiskSpace", "simulated storage failure")
		}
		r := bson.D{{Key: "n", Value: int32(n)}}
		if len(werrs) > 0 {
			r = append(r, bson.E{Key: "writeErrors", Value: werrs})
		}
		return append(r, bson.E{Key: "ok", Value: float64(1)})
	case "find":
		c := st.coll(db, collName, false)
		filter := asD(valueOr(cmd, "filter", bson.D{}))
		var out []bson.D
		if c != nil {
			for _, d := range c.Docs {
				ok, err := matches(d, filter)
				if err != nil {
					s.setGap("find: %v", err)
					return errDoc(2, "BadValue", err.Error())
				}
				if ok {
					out = append(out, d)
				}
			}
		}
		for _, e := range cmd {
			switch e.Key {
			case "find", "filter", "sort", "limit", "singleBatch", "batchSize", "lsid", "$db", "$readPreference", "$clusterTime":
			default:
				s.setGap("find option %s not modelled", e.Key)
			}
		}
		sortDocs(out, asD(valueOr(cmd, "sort", bson.D{})))
		if l := asInt(valueOr(cmd, "limit", int32(0))); l > 0 && int(l) < len(out) {
			out = out[:l]
		}
		batch := bson.A{}
		for _, d := range out {
			batch = append(batch, copyDoc(d))
		}
		first := 101
		if bs := asInt(valueOr(cmd, "batchSize", int32(0))); bs > 0 {
			first = int(bs)
		}
		var id int64
		if len(batch) > first && !asBool(valueOr(cmd, "singleBatch", false)) {
			s.nextCur++
			id = s.nextCur
			s.cursors[id] = &cursor{ns: db + "." + collName, rest: batch[first:]}
			batch = batch[:first]
		}
		return okDoc(bson.E{Key: "cursor", Value: bson.D{{Key: "firstBatch", Value: batch}, {Key: "id", Value: id}, {Key: "ns", Value: db + "." + collName}}})
	case "getmore":
		id := asInt(cmd[0].Value)
		c, ok := s.cursors[id]
		if !ok {
			return errDoc(43, "CursorNotFound", fmt.Sprintf("cursor id %d not found", id))
		}
		n := len(c.rest)
		if bs := asInt(valueOr(cmd, "batchSize", int32(0))); bs > 0 && int(bs) < n {
			n = int(bs)
		}
		next := c.rest[:n]
		c.rest = c.rest[n:]
		rid := id
		if len(c.rest) == 0 {
			delete(s.cursors, id)
			rid = 0
		}
		return okDoc(bson.E{Key: "cursor", Value: bson.D{{Key: "nextBatch", Value: next}, {Key: "id", Value: rid}, {Key: "ns", Value: c.ns}}})
	case "update":
		upsV, _ := get(cmd, "updates")
		ups, _ := upsV.(bson.A)
		c := st.coll(db, collName, true)
		var n, nMod int32
		var upserted bson.A
		for i, uv := range ups {
			u := asD(uv)
			q := asD(valueOr(u, "q", bson.D{}))
			upd := asD(valueOr(u, "u", bson.D{}))
			multi := asBool(valueOr(u, "multi", false))
			upsert := asBool(valueOr(u, "upsert", false))
			matched := false
			for j, d := range c.Docs {
				ok, err := matches(d, q)
				if err != nil {
					s.setGap("update: %v", err)
					return errDoc(2, "BadValue", err.Error())
				}
				if !ok {
					continue
				}
				matched = true
				n++
				nd, err := st.applyUpdate(d, upd)
				if err != nil {
					s.setGap("update: %v", err)
					return errDoc(2, "BadValue", err.Error())
				}
				nd = normalise(nd).(bson.D)
				if !sameDoc(d, nd) {
					c.Docs[j] = nd
					nMod++
				}
				if !multi {
					break
				}
			}
			if !matched && upsert {
				seed := upsertSeed(q)
				nd, err := st.applyUpdate(seed, upd)
				if err != nil {
					s.setGap("update: %v", err)
					return errDoc(2, "BadValue", err.Error())
				}
				nd = normalise(nd).(bson.D)
				id, has := get(nd, "_id")
				if !has {
					id = primitive.NewObjectID()
					nd = append(bson.D{{Key: "_id", Value: id}}, nd...)
				}
				c.Docs = append(c.Docs, nd)
				n++
				upserted = append(upserted, bson.D{{Key: "index", Value: int32(i)}, {Key: "_id", Value: id}})
			}
		}
		r := bson.D{{Key: "n", Value: n}, {Key: "nModified", Value: nMod}}
		if len(upserted) > 0 {
			r = append(r, bson.E{Key: "upserted", Value: upserted})
		}
		return append(r, bson.E{Key: "ok", Value: float64(1)})
	case "delete":
		delsV, _ := get(cmd, "deletes")
		dels, _ := delsV.(bson.A)
		c := st.coll(db, collName, false)
		var n int32
		if c != nil {
			for _, dv := range dels {
				d := asD(dv)
				q := asD(valueOr(d, "q", bson.D{}))
				limit := asInt(valueOr(d, "limit", int32(0)))
				var keep []bson.D
				removed := int64(0)
				for _, doc := range c.Docs {
					ok, err := matches(doc, q)
					if err != nil {
						s.setGap("delete: %v", err)
						return errDoc(2, "BadValue", err.Error())
					}
					if ok && (limit == 0 || removed < limit) {
						removed++
						n++
						continue
					}
					keep = append(keep, doc)
				}
				c.Docs = keep
			}
		}
		return okDoc(bson.E{Key: "n", Value: n})
	case "findandmodify":
		c := st.coll(db, collName, true)
		q := asD(valueOr(cmd, "query", bson.D{}))
		upd := asD(valueOr(cmd, "update", bson.D{}))
		upsert := asBool(valueOr(cmd, "upsert", false))
		retNew := asBool(valueOr(cmd, "new", false))
		for _, e := range cmd {
			switch e.Key {
			case "findAndModify", "findandmodify", "query", "update", "upsert", "new", "lsid", "$db", "$clusterTime", "txnNumber":
			default:
				s.setGap("findAndModify option %s not modelled", e.Key)
			}
		}
		for j, d := range c.Docs {
			ok, err := matches(d, q)
			if err != nil {
				s.setGap("findAndModify: %v", err)
				return errDoc(2, "BadValue", err.Error())
			}
			if !ok {
				continue
			}
			nd, err := st.applyUpdate(d, upd)
			if err != nil {
				s.setGap("findAndModify: %v", err)
				return errDoc(2, "BadValue", err.Error())
			}
			nd = normalise(nd).(bson.D)
			c.Docs[j] = nd
			val := copyDoc(d)
			if retNew {
				val = copyDoc(nd)
			}
			return okDoc(bson.E{Key: "lastErrorObject", Value: bson.D{{Key: "n", Value: int32(1)}, {Key: "updatedExisting", Value: true}}}, bson.E{Key: "value", Value: val})
		}
		if !upsert {
			return okDoc(bson.E{Key: "lastErrorObject", Value: bson.D{{Key: "n", Value: int32(0)}, {Key: "updatedExisting", Value: false}}}, bson.E{Key: "value", Value: nil})
		}
		nd, err := st.applyUpdate(upsertSeed(q), upd)
		if err != nil {
			s.setGap("findAndModify: %v", err)
			return errDoc(2, "BadValue", err.Error())
		}
		nd = normalise(nd).(bson.D)
		id, has := get(nd, "_id")
		if !has {
			id = primitive.NewObjectID()
			nd = append(bson.D{{Key: "_id", Value: id}}, nd...)
		}
		c.Docs = append(c.Docs, nd)
		var val interface{}
		if retNew {
			val = copyDoc(nd)
		}
		return okDoc(bson.E{Key: "lastErrorObject", Value: bson.D{{Key: "n", Value: int32(1)}, {Key: "updatedExisting", Value: false}, {Key: "upserted", Value: id}}}, bson.E{Key: "value", Value: val})
	case "listcollections":
		filter := asD(valueOr(cmd, "filter", bson.D{}))
		batch := bson.A{}
		for _, n := range st.CollNames(db) {
			entry := bson.D{{Key: "name", Value: n}, {Key: "type", Value: "collection"}}
			ok, err := matches(entry, filter)
			if err != nil {
				s.setGap("listCollections: %v", err)
			}
			if ok {
				batch = append(batch, entry)
			}
		}
		return okDoc(bson.E{Key: "cursor", Value: bson.D{{Key: "firstBatch", Value: batch}, {Key: "id", Value: int64(0)}, {Key: "ns", Value: db + ".$cmd.listCollections"}}})
	case "createindexes":
		c := st.coll(db, collName, true)
		before := int32(1 + len(c.Indexes))
		if ixs, ok := valueOr(cmd, "indexes", bson.A{}).(bson.A); ok {
			for _, ix := range ixs {
				c.Indexes = append(c.Indexes, asD(ix))
			}
		}
		return okDoc(bson.E{Key: "createdCollectionAutomatically", Value: false}, bson.E{Key: "numIndexesBefore", Value: before}, bson.E{Key: "numIndexesAfter", Value: int32(1 + len(c.Indexes))})
	case "drop":
		if st.coll(db, collName, false) == nil {
			return errDoc(26, "NamespaceNotFound", "ns not found")
		}
		delete(st.DBs[db], collName)
		return okDoc(bson.E{Key: "ns", Value: db + "." + collName}, bson.E{Key: "nIndexesWas", Value: int32(1)})
	case "committransaction", "aborttransaction":
		return errDoc(20, "IllegalOperation", "Transaction numbers are only allowed on a replica set member or mongos")
	case "killcursors":
		if ids, ok := valueOr(cmd, "cursors", bson.A{}).(bson.A); ok {
			for _, v := range ids {
				delete(s.cursors, asInt(v))
			}
		}
		return okDoc()
	}
	s.setGap("command %s not modelled", name)
	return errDoc(59, "CommandNotFound", "no such command: "+name)
}

func valueOr(d bson.D, key string, def interface{}) interface{} {
	if v, ok := get(d, key); ok {
		return v
	}
	return def
}
