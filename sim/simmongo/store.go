// Package simmongo is an in-process MongoDB stand-in that speaks the wire protocol
// (OP_QUERY handshake + OP_MSG) to the real mongo-go-driver over net.Pipe. It models a
// standalone mongod for exactly the commands orda's server issues; anything else is
// recorded as a stub gap (the run is then reported as a harness failure, never a verdict).
//
// Semantics encoded (MongoDB manual):
//   - insert: ordered by default; a duplicate _id stops the batch with writeErrors code 11000,
//     the documents before it stay inserted ("insert" command, ordered).
//   - update: n = matched, nModified = documents actually changed (an update that results in no
//     change has nModified 0), upsert inserts a document built from the equality fields of the
//     query plus the update and reports it in `upserted`.
//   - findAndModify: returns the pre-image unless new:true; value null when an upsert inserted.
//   - find: filter by top-level equality and $gte/$lte/$gt/$lt/$ne/$in/$exists, sort on keys, limit.
//   - numeric comparison is across int32/int64/double (BSON comparison order).
//   - dates have millisecond resolution.
//   - drop of a missing namespace: error 26 NamespaceNotFound.
package simmongo

import (
	"bytes"
	"encoding/json"
	"fmt"
	"math"
	"sort"
	"strings"
	"time"

	"go.mongodb.org/mongo-driver/bson"
	"go.mongodb.org/mongo-driver/bson/bsontype"
	"go.mongodb.org/mongo-driver/bson/primitive"
)

// Coll is one collection of the durable image.
type Coll struct {
	Name    string
	Docs    []bson.D
	Indexes []bson.D
}

// Store is the durable image: what survives a crash of the orda server.
type Store struct {
	DBs map[string]map[string]*Coll
	Now func() time.Time
}

func NewStore(now func() time.Time) *Store {
	return &Store{DBs: map[string]map[string]*Coll{}, Now: now}
}

func (s *Store) coll(db, name string, create bool) *Coll {
	d, ok := s.DBs[db]
	if !ok {
		if !create {
			return nil
		}
		d = map[string]*Coll{}
		s.DBs[db] = d
	}
	c, ok := d[name]
	if !ok && create {
		c = &Coll{Name: name}
		d[name] = c
	}
	return c
}

// CollNames returns the sorted collection names of a database.
func (s *Store) CollNames(db string) []string {
	var out []string
	for n := range s.DBs[db] {
		out = append(out, n)
	}
	sort.Strings(out)
	return out
}

// Dump renders the whole image canonically (sorted collections, documents sorted by _id).
func (s *Store) Dump(db string, skipField func(coll, field string) bool) string {
	var sb strings.Builder
	for _, n := range s.CollNames(db) {
		c := s.DBs[db][n]
		fmt.Fprintf(&sb, "== %s (%d)\n", n, len(c.Docs))
		lines := make([]string, 0, len(c.Docs))
		for _, d := range c.Docs {
			lines = append(lines, canonDoc(d, n, skipField))
		}
		sort.Strings(lines)
		for _, l := range lines {
			sb.WriteString(l)
			sb.WriteByte('\n')
		}
	}
	return sb.String()
}

func canonDoc(d bson.D, coll string, skip func(coll, field string) bool) string {
	var f bson.D
	for _, e := range d {
		if skip != nil && skip(coll, e.Key) {
			continue
		}
		f = append(f, e)
	}
	b, err := bson.MarshalExtJSON(f, true, false)
	if err != nil {
		return "!" + err.Error()
	}
	// Go maps inside stored documents were encoded in random key order: compare order-insensitively
	var x interface{}
	if json.Unmarshal(b, &x) != nil {
		return string(b)
	}
	c, _ := json.Marshal(x)
	return string(c)
}

// Find returns copies of the documents of a collection matching filter, in insertion order.
func (s *Store) Find(db, coll string, filter bson.D) []bson.D {
	c := s.coll(db, coll, false)
	if c == nil {
		return nil
	}
	var out []bson.D
	for _, d := range c.Docs {
		if ok, _ := matches(d, filter); ok {
			out = append(out, d)
		}
	}
	return out
}

// ---------------------------------------------------------------- values

func get(d bson.D, key string) (interface{}, bool) {
	for _, e := range d {
		if e.Key == key {
			return e.Value, true
		}
	}
	return nil, false
}

func set(d bson.D, key string, v interface{}) bson.D {
	for i, e := range d {
		if e.Key == key {
			d[i].Value = v
			return d
		}
	}
	return append(d, bson.E{Key: key, Value: v})
}

func copyDoc(d bson.D) bson.D {
	b, err := bson.Marshal(d)
	if err != nil {
		panic(err)
	}
	var out bson.D
	if err := bson.Unmarshal(b, &out); err != nil {
		panic(err)
	}
	return out
}

func isNumber(v interface{}) (float64, int64, bool, bool) { // float, int, isInt, ok
	switch x := v.(type) {
	case int32:
		return float64(x), int64(x), true, true
	case int64:
		return float64(x), x, true, true
	case float64:
		return x, 0, false, true
	case int:
		return float64(x), int64(x), true, true
	}
	return 0, 0, false, false
}

// typeRank follows the BSON comparison order for the types that occur here.
func typeRank(v interface{}) int {
	switch v.(type) {
	case nil, primitive.Null:
		return 2
	case int32, int64, float64, int:
		return 3
	case string:
		return 4
	case bson.D, bson.M:
		return 5
	case bson.A:
		return 6
	case primitive.Binary, []byte:
		return 7
	case primitive.ObjectID:
		return 8
	case bool:
		return 9
	case primitive.DateTime, time.Time:
		return 10
	}
	return 20
}

func dateMillis(v interface{}) (int64, bool) {
	switch x := v.(type) {
	case primitive.DateTime:
		return int64(x), true
	case time.Time:
		return x.UnixMilli(), true
	}
	return 0, false
}

// compare returns -1/0/1 following BSON ordering for the supported types.
func compare(a, b interface{}) int {
	ra, rb := typeRank(a), typeRank(b)
	if ra != rb {
		if ra < rb {
			return -1
		}
		return 1
	}
	switch ra {
	case 3:
		fa, ia, inta, _ := isNumber(a)
		fb, ib, intb, _ := isNumber(b)
		if inta && intb {
			switch {
			case ia < ib:
				return -1
			case ia > ib:
				return 1
			}
			return 0
		}
		switch {
		case fa < fb:
			return -1
		case fa > fb:
			return 1
		}
		return 0
	case 4:
		return strings.Compare(a.(string), b.(string))
	case 9:
		x, y := a.(bool), b.(bool)
		switch {
		case x == y:
			return 0
		case !x:
			return -1
		}
		return 1
	case 10:
		x, _ := dateMillis(a)
		y, _ := dateMillis(b)
		switch {
		case x < y:
			return -1
		case x > y:
			return 1
		}
		return 0
	case 8:
		x, y := a.(primitive.ObjectID), b.(primitive.ObjectID)
		return bytes.Compare(x[:], y[:])
	}
	ba, _ := bson.Marshal(bson.D{{Key: "v", Value: a}})
	bb, _ := bson.Marshal(bson.D{{Key: "v", Value: b}})
	return bytes.Compare(ba, bb)
}

func equalValue(a, b interface{}) bool { return compare(a, b) == 0 }

// matches evaluates a filter against a document. Unsupported operators are reported.
func matches(d bson.D, filter bson.D) (bool, error) {
	for _, f := range filter {
		if strings.HasPrefix(f.Key, "$") {
			return false, fmt.Errorf("top-level operator %s not modelled", f.Key)
		}
		if strings.Contains(f.Key, ".") {
			return false, fmt.Errorf("dotted field %s not modelled", f.Key)
		}
		v, has := get(d, f.Key)
		if ops, ok := f.Value.(bson.D); ok && len(ops) > 0 && strings.HasPrefix(ops[0].Key, "$") {
			for _, op := range ops {
				switch op.Key {
				case "$exists":
					want, _ := op.Value.(bool)
					if has != want {
						return false, nil
					}
				case "$eq":
					if !has || !equalValue(v, op.Value) {
						return false, nil
					}
				case "$ne":
					if has && equalValue(v, op.Value) {
						return false, nil
					}
				case "$gte", "$gt", "$lte", "$lt":
					if !has || typeRank(v) != typeRank(op.Value) {
						return false, nil
					}
					c := compare(v, op.Value)
					ok := map[string]bool{"$gte": c >= 0, "$gt": c > 0, "$lte": c <= 0, "$lt": c < 0}[op.Key]
					if !ok {
						return false, nil
					}
				case "$in":
					arr, _ := op.Value.(bson.A)
					found := false
					for _, x := range arr {
						if has && equalValue(v, x) {
							found = true
						}
					}
					if !found {
						return false, nil
					}
				default:
					return false, fmt.Errorf("query operator %s not modelled", op.Key)
				}
			}
			continue
		}
		if !has {
			if f.Value == nil {
				continue
			}
			return false, nil
		}
		if !equalValue(v, f.Value) {
			return false, nil
		}
	}
	return true, nil
}

func sortDocs(docs []bson.D, spec bson.D) {
	if len(spec) == 0 {
		return
	}
	sort.SliceStable(docs, func(i, j int) bool {
		for _, s := range spec {
			dir := 1
			if f, _, _, ok := isNumber(s.Value); ok && f < 0 {
				dir = -1
			}
			a, _ := get(docs[i], s.Key)
			b, _ := get(docs[j], s.Key)
			c := compare(a, b) * dir
			if c != 0 {
				return c < 0
			}
		}
		return false
	})
}

// normalise converts time.Time to DateTime (millisecond resolution) recursively.
func normalise(v interface{}) interface{} {
	switch x := v.(type) {
	case time.Time:
		return primitive.NewDateTimeFromTime(x)
	case bson.D:
		for i := range x {
			x[i].Value = normalise(x[i].Value)
		}
		return x
	case bson.A:
		for i := range x {
			x[i] = normalise(x[i])
		}
		return x
	}
	return v
}

// applyUpdate returns the updated copy of doc. isReplacement: u has no $-operators.
func (s *Store) applyUpdate(doc bson.D, u bson.D) (bson.D, error) {
	if len(u) == 0 || !strings.HasPrefix(u[0].Key, "$") {
		// replacement: keep _id
		out := bson.D{}
		if id, ok := get(doc, "_id"); ok {
			out = append(out, bson.E{Key: "_id", Value: id})
		}
		for _, e := range copyDoc(u) {
			if e.Key == "_id" {
				continue
			}
			out = append(out, e)
		}
		return out, nil
	}
	out := copyDoc(doc)
	for _, op := range u {
		fields, ok := op.Value.(bson.D)
		if !ok {
			return nil, fmt.Errorf("update operator %s with non-document argument", op.Key)
		}
		for _, f := range fields {
			if strings.Contains(f.Key, ".") {
				return nil, fmt.Errorf("dotted update path %s not modelled", f.Key)
			}
			switch op.Key {
			case "$set":
				out = set(out, f.Key, f.Value)
			case "$inc":
				cur, has := get(out, f.Key)
				if !has {
					out = set(out, f.Key, f.Value)
					continue
				}
				_, ci, cint, cok := isNumber(cur)
				fd, di, dint, dok := isNumber(f.Value)
				if !cok || !dok {
					return nil, fmt.Errorf("$inc on non-number")
				}
				if cint && dint {
					sum := ci + di
					if _, is32 := cur.(int32); is32 && sum >= math.MinInt32 && sum <= math.MaxInt32 {
						out = set(out, f.Key, int32(sum))
					} else {
						out = set(out, f.Key, sum)
					}
				} else {
					cf, _, _, _ := isNumber(cur)
					out = set(out, f.Key, cf+fd)
				}
			case "$currentDate":
				out = set(out, f.Key, primitive.NewDateTimeFromTime(s.Now()))
			default:
				return nil, fmt.Errorf("update operator %s not modelled", op.Key)
			}
		}
	}
	return out, nil
}

func sameDoc(a, b bson.D) bool {
	x, _ := bson.Marshal(a)
	y, _ := bson.Marshal(b)
	return bytes.Equal(x, y)
}

// upsertSeed builds the document an upsert starts from: the equality fields of the query.
func upsertSeed(q bson.D) bson.D {
	out := bson.D{}
	for _, f := range q {
		if ops, ok := f.Value.(bson.D); ok && len(ops) > 0 && strings.HasPrefix(ops[0].Key, "$") {
			continue
		}
		out = append(out, bson.E{Key: f.Key, Value: f.Value})
	}
	return out
}

var _ = bsontype.Null
