package simmongo

import (
	"context"
	"testing"
	"time"

	"go.mongodb.org/mongo-driver/bson"
	"go.mongodb.org/mongo-driver/mongo"
	"go.mongodb.org/mongo-driver/mongo/options"
)

func connect(t *testing.T) (*mongo.Client, *Server) {
	st := NewStore(time.Now)
	srv := NewServer(st)
	srv.Auto = true
	opt := options.Client().ApplyURI("mongodb://stub:27017/").SetDialer(&Dialer{S: srv, Instance: 1})
	c, err := mongo.Connect(context.Background(), opt)
	if err != nil {
		t.Fatal(err)
	}
	if err := c.Ping(context.Background(), nil); err != nil {
		t.Fatal(err)
	}
	return c, srv
}

// Each case pins one documented MongoDB behaviour the stub encodes.
func TestStubSemantics(t *testing.T) {
	ctx := context.Background()
	c, srv := connect(t)
	defer c.Disconnect(ctx)
	col := c.Database("d").Collection("c")

	// insert: ordered; duplicate _id → error 11000, earlier documents stay ("If an error occurs during
	// the processing of one of the write operations, MongoDB will return without processing any
	// remaining write operations in the list" – db.collection.insertMany, ordered)
	if _, err := col.InsertMany(ctx, []interface{}{bson.M{"_id": "a", "v": 1}, bson.M{"_id": "b", "v": 2}}); err != nil {
		t.Fatal(err)
	}
	_, err := col.InsertMany(ctx, []interface{}{bson.M{"_id": "c"}, bson.M{"_id": "a"}, bson.M{"_id": "d"}})
	if !mongo.IsDuplicateKeyError(err) {
		t.Fatalf("want duplicate key error, got %v", err)
	}
	cur, err := col.Find(ctx, bson.D{}, options.Find().SetSort(bson.D{{Key: "_id", Value: -1}}))
	if err != nil {
		t.Fatal(err)
	}
	var all []bson.M
	if err := cur.All(ctx, &all); err != nil {
		t.Fatal(err)
	}
	if len(all) != 3 || all[0]["_id"] != "c" || all[2]["_id"] != "a" {
		t.Fatalf("after partial ordered insert: %v", all)
	}

	// update: "nModified: the number of documents updated. If the update operation results in no
	// change to the document, nModified can be less than n."
	r, err := col.UpdateOne(ctx, bson.M{"_id": "a"}, bson.M{"$set": bson.M{"v": 1}})
	if err != nil || r.MatchedCount != 1 || r.ModifiedCount != 0 {
		t.Fatalf("no-op update: %+v %v", r, err)
	}
	r, err = col.UpdateOne(ctx, bson.M{"_id": "a"}, bson.M{"$set": bson.M{"v": 5}})
	if err != nil || r.MatchedCount != 1 || r.ModifiedCount != 1 {
		t.Fatalf("update: %+v %v", r, err)
	}
	// upsert inserts query equality fields + update and reports the id
	up := true
	r, err = col.UpdateOne(ctx, bson.M{"_id": "z"}, bson.M{"$set": bson.M{"v": 9}}, &options.UpdateOptions{Upsert: &up})
	if err != nil || r.UpsertedCount != 1 || r.UpsertedID != "z" || r.ModifiedCount != 0 {
		t.Fatalf("upsert: %+v %v", r, err)
	}

	// findAndModify returns the pre-image by default ("new: false"), and no document when an upsert inserted
	cnt := c.Database("d").Collection("n")
	fo := options.FindOneAndUpdate().SetUpsert(true)
	res := cnt.FindOneAndUpdate(ctx, bson.M{"_id": "id"}, bson.M{"$inc": bson.M{"num": 1}}, fo)
	if res.Err() != mongo.ErrNoDocuments {
		t.Fatalf("first findAndModify with upsert: want ErrNoDocuments, got %v", res.Err())
	}
	res = cnt.FindOneAndUpdate(ctx, bson.M{"_id": "id"}, bson.M{"$inc": bson.M{"num": 1}}, fo)
	var d struct {
		Num int32 `bson:"num"`
	}
	if err := res.Decode(&d); err != nil || d.Num != 1 {
		t.Fatalf("second findAndModify returns the pre-image num=1, got %v %v", d, err)
	}

	// range query with cross-type numbers, sorted
	ops := c.Database("d").Collection("ops")
	for i := 1; i <= 5; i++ {
		ops.InsertOne(ctx, bson.M{"_id": i, "duid": "x", "sseq": uint64(i)})
	}
	cur, _ = ops.Find(ctx, bson.D{{Key: "duid", Value: "x"}, {Key: "sseq", Value: bson.D{{Key: "$gte", Value: uint64(3)}}}}, options.Find().SetSort(bson.D{{Key: "sseq", Value: 1}}))
	all = nil
	cur.All(ctx, &all)
	if len(all) != 3 || all[0]["sseq"].(int64) != 3 {
		t.Fatalf("range: %v", all)
	}

	// a find returns 101 documents first, the rest through getMore ("the first batch ... 101 documents")
	big := c.Database("d").Collection("big")
	var many []interface{}
	for i := 0; i < 250; i++ {
		many = append(many, bson.M{"_id": i, "duid": "y", "sseq": int64(i + 1)})
	}
	if _, err := big.InsertMany(ctx, many); err != nil {
		t.Fatal(err)
	}
	cur, err = big.Find(ctx, bson.D{{Key: "duid", Value: "y"}}, options.Find().SetSort(bson.D{{Key: "sseq", Value: 1}}))
	if err != nil {
		t.Fatal(err)
	}
	all = nil
	if err := cur.All(ctx, &all); err != nil || len(all) != 250 || all[249]["sseq"].(int64) != 250 {
		t.Fatalf("cursor over 250 documents: %d %v", len(all), err)
	}
	if srv.Commands["getmore"] == 0 {
		t.Fatalf("expected getMore to be used")
	}

	// replace with upsert
	rr, err := col.ReplaceOne(ctx, bson.M{"_id": "doc"}, bson.M{"x": 1}, options.Replace().SetUpsert(true))
	if err != nil || rr.UpsertedCount != 1 {
		t.Fatalf("replace upsert %+v %v", rr, err)
	}
	rr, err = col.ReplaceOne(ctx, bson.M{"_id": "doc"}, bson.M{"x": 2}, options.Replace().SetUpsert(true))
	if err != nil || rr.ModifiedCount != 1 {
		t.Fatalf("replace %+v %v", rr, err)
	}

	// drop of a missing namespace is not an error for the driver; listCollections with a name filter
	if err := c.Database("d").Collection("nope").Drop(ctx); err != nil {
		t.Fatal(err)
	}
	names, err := c.Database("d").ListCollectionNames(ctx, bson.D{{Key: "name", Value: "ops"}})
	if err != nil || len(names) != 1 {
		t.Fatalf("list: %v %v", names, err)
	}
	// deleteMany
	dr, err := ops.DeleteMany(ctx, bson.D{{Key: "duid", Value: "x"}})
	if err != nil || dr.DeletedCount != 5 {
		t.Fatalf("deleteMany %+v %v", dr, err)
	}
	// sessions: an empty transaction sends nothing; commit succeeds locally
	sess, err := c.StartSession()
	if err != nil {
		t.Fatal(err)
	}
	if err := sess.StartTransaction(); err != nil {
		t.Fatal(err)
	}
	if err := mongo.WithSession(ctx, sess, func(sc mongo.SessionContext) error { return sess.CommitTransaction(sc) }); err != nil {
		t.Fatal(err)
	}
	sess.EndSession(ctx)
	if g := srv.Gap(); g != "" {
		t.Fatalf("stub gap: %s", g)
	}
}
