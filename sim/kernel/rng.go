// Package kernel holds what the three simulation engines share: the seeded generator,
// plan/violation/result types, canonical JSON and trace hashing.
package kernel

// Rng is SplitMix64. One run seed yields independent named streams through Derive.
type Rng struct{ s uint64 }

func NewRng(seed uint64) *Rng { return &Rng{s: seed} }

func Mix64(a uint64, bs ...uint64) uint64 {
	x := a
	for _, b := range bs {
		x ^= b + 0x9e3779b97f4a7c15 + (x << 6) + (x >> 2)
		x = mix(x)
	}
	return mix(x)
}

func mix(z uint64) uint64 {
	z += 0x9e3779b97f4a7c15
	z = (z ^ (z >> 30)) * 0xbf58476d1ce4e5b9
	z = (z ^ (z >> 27)) * 0x94d049bb133111eb
	return z ^ (z >> 31)
}

func HashString(s string) uint64 {
	var h uint64 = 1469598103934665603
	for i := 0; i < len(s); i++ {
		h ^= uint64(s[i])
		h *= 1099511628211
	}
	return h
}

func (r *Rng) Derive(name string) *Rng { return NewRng(Mix64(r.s, HashString(name))) }

func (r *Rng) U64() uint64 {
	r.s += 0x9e3779b97f4a7c15
	z := r.s
	z = (z ^ (z >> 30)) * 0xbf58476d1ce4e5b9
	z = (z ^ (z >> 27)) * 0x94d049bb133111eb
	return z ^ (z >> 31)
}

// Intn returns a value in [0,n); n<=0 yields 0.
func (r *Rng) Intn(n int) int {
	if n <= 0 {
		return 0
	}
	return int(r.U64() % uint64(n))
}

// Range returns a value in [lo,hi].
func (r *Rng) Range(lo, hi int) int {
	if hi <= lo {
		return lo
	}
	return lo + r.Intn(hi-lo+1)
}

func (r *Rng) Chance(num, den int) bool { return r.Intn(den) < num }

func (r *Rng) Float() float64 { return float64(r.U64()>>11) / float64(1<<53) }

// Pick chooses an index according to integer weights (all zero → 0).
func (r *Rng) Pick(w []int) int {
	t := 0
	for _, x := range w {
		if x > 0 {
			t += x
		}
	}
	if t == 0 {
		return 0
	}
	k := r.Intn(t)
	for i, x := range w {
		if x <= 0 {
			continue
		}
		if k < x {
			return i
		}
		k -= x
	}
	return len(w) - 1
}

const uidChars = "_-0123456789abcdefghijklmnopqrstuvwxyzABCDEFGHIJKLMNOPQRSTUVWXYZ"

// UID returns a 16-character id over orda's id alphabet.
func (r *Rng) UID() string {
	b := make([]byte, 16)
	for i := range b {
		b[i] = uidChars[r.Intn(len(uidChars))]
	}
	return string(b)
}
