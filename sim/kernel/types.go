package kernel

import (
	"bytes"
	"encoding/json"
	"fmt"
	"sort"
)

// Violation is one oracle failure. (Property, Oracle, Fingerprint) is its identity for
// shrinking, replay and the known-findings file; Message is for humans.
type Violation struct {
	Property    string `json:"property"`
	Oracle      string `json:"oracle"`
	Fingerprint string `json:"fingerprint"`
	Message     string `json:"message"`
	Step        int    `json:"step"`
}

func (v *Violation) Key() string { return v.Property + "|" + v.Oracle + "|" + v.Fingerprint }
func (v *Violation) Error() string {
	return fmt.Sprintf("%s %s/%s at step %d: %s", v.Property, v.Oracle, v.Fingerprint, v.Step, v.Message)
}

// Plan is the replayable description of one run.
type Plan struct {
	Engine   string            `json:"engine"`
	Property string            `json:"property"`
	Seed     uint64            `json:"seed"`
	Config   json.RawMessage   `json:"config"`
	Events   []json.RawMessage `json:"events"`
}

// Result is what one execution of a plan reports.
type Result struct {
	Violation    *Violation     `json:"violation,omitempty"`
	Known        []string       `json:"known,omitempty"` // known-finding keys hit (run tainted)
	Faults       map[string]int `json:"faults,omitempty"`
	Probes       map[string]int `json:"probes,omitempty"`
	Steps        int            `json:"steps"`
	SimNanos     int64          `json:"sim_ns"`
	TraceHash    uint64         `json:"trace_hash"`
	StateHash    uint64         `json:"state_hash"` // digest of the event log incl. observable states
	Nontrivial   bool           `json:"nontrivial"`
	States       []uint64       `json:"-"` // distinct state digests reached
	Log          []string       `json:"log,omitempty"`
	Inconclusive int            `json:"inconclusive,omitempty"`
	Obs          map[string]string `json:"obs,omitempty"` // engine B, Config.Observe: plain facts about the end of the run
	EvCmds       map[int][]string `json:"ev_cmds,omitempty"` // engine B, Config.Count: event index -> database commands of its exchange
}

// Canon renders any JSON-marshalable value canonically (sorted keys, numbers as float64).
func Canon(v interface{}) string {
	b, err := json.Marshal(v)
	if err != nil {
		return "!marshal:" + err.Error()
	}
	var x interface{}
	d := json.NewDecoder(bytes.NewReader(b))
	if err := d.Decode(&x); err != nil {
		return "!unmarshal:" + err.Error()
	}
	var buf bytes.Buffer
	enc := json.NewEncoder(&buf)
	enc.SetEscapeHTML(false)
	_ = enc.Encode(x)
	return string(bytes.TrimRight(buf.Bytes(), "\n"))
}

// CanonBytes canonicalises a JSON text.
func CanonBytes(b []byte) string {
	var x interface{}
	if err := json.Unmarshal(b, &x); err != nil {
		return "!unmarshal:" + err.Error() + ":" + string(b)
	}
	return Canon(x)
}

func SortedKeys[V any](m map[string]V) []string {
	ks := make([]string, 0, len(m))
	for k := range m {
		ks = append(ks, k)
	}
	sort.Strings(ks)
	return ks
}

// Hasher accumulates a 64-bit digest of strings/ints in order.
type Hasher struct{ h uint64 }

func NewHasher() *Hasher { return &Hasher{h: 0xcbf29ce484222325} }
func (h *Hasher) Str(s string) *Hasher {
	h.h = Mix64(h.h, HashString(s), uint64(len(s)))
	return h
}
func (h *Hasher) Int(i int) *Hasher    { h.h = Mix64(h.h, uint64(i)); return h }
func (h *Hasher) U64(i uint64) *Hasher { h.h = Mix64(h.h, i); return h }
func (h *Hasher) Sum() uint64          { return h.h }
