package engb

import (
	"fmt"
	"testing"
	"testing/synctest"
	"time"

	"github.com/orda-io/orda/client/pkg/orda"
)

func TestBringup(t *testing.T) {
	t0 := time.Now()
	synctest.Test(t, func(t *testing.T) {
		w := newWorld(t, 1)
		defer w.close()
		if err := w.startServer(); err != nil {
			t.Fatal(err)
		}
		if err := w.createCollection("col"); err != nil {
			t.Fatal(err)
		}
		w.mongo.Auto = true
		a := w.newActor("col", false)
		w.cur = a
		errc := make(chan error, 1)
		go func() { errc <- a.client.Connect() }()
		synctest.Wait()
		// the ProcessClient call is queued at the transport
		q := w.tr.byState("queued")
		fmt.Println("queued calls:", len(q))
		for _, c := range q {
			c.state = "running"
			go func(c *call) {
				r := invoke(w.inst, c.method, c.decodeReq())
				c.done <- r
			}(c)
		}
		synctest.Wait()
		fmt.Println("connect:", <-errc)
		w.cur = nil
		cnt := a.client.CreateCounter("k", orda.NewHandlers(nil, nil, nil))
		cnt.IncreaseBy(5)
		go func() { errc <- a.client.Sync() }()
		synctest.Wait()
		for _, c := range w.tr.byState("queued") {
			c.state = "running"
			go func(c *call) { c.done <- invoke(w.inst, c.method, c.decodeReq()) }(c)
		}
		synctest.Wait()
		fmt.Println("sync:", <-errc, "value", cnt.Get(), "state", cnt.GetState())
		time.Sleep(100 * time.Millisecond)
		synctest.Wait()
		fmt.Println(w.store.Dump(dbName, nil))
		fmt.Println("gap:", w.mongo.Gap(), "commands:", w.mongo.Commands)
		a.client.Close()
		w.stopServer()
		w.mongo.CloseAll()
		synctest.Wait()
	})
	fmt.Println("wall:", time.Since(t0))
}
