package engb

import (
	"context"
	"sort"
	"sync"
	"verif/sim/kernel"

	"github.com/orda-io/orda/client/pkg/model"
	"google.golang.org/grpc"
	"google.golang.org/grpc/codes"
	"google.golang.org/grpc/status"
	"google.golang.org/protobuf/proto"
)

// call is one RPC in flight between a client and the server.
type call struct {
	id      int
	client  string // who issued it (actor name)
	method  string
	reqB    []byte
	req     proto.Message
	done    chan callResult
	state   string // queued | running | answered | finished
	resp    *callResult
	copies  int // how many times the request has been delivered to the server
	inst    *serverInst
	startAt int64
	endAt   int64
	dropped bool                // the answer never reached the client
	pre     map[string]preState // per key: the client's datatype right before an error pack was delivered
}

type preState struct {
	d          *dtState
	errs       int
	state      string
	sseq, cseq uint64
	opt        string
}

type callResult struct {
	msg proto.Message
	err error
}

// transport is the gRPC stand-in shared by all clients of a run.
type transport struct {
	mu     sync.Mutex
	calls  []*call // all calls in issue order
	nextID int
}

// endpoint is the model.OrdaServiceClient one client sees.
type endpoint struct {
	t    *transport
	name string
}

func (t *transport) issue(name, method string, req proto.Message) (proto.Message, error) {
	b, err := proto.Marshal(req)
	if err != nil {
		return nil, err
	}
	c := &call{client: name, method: method, reqB: b, req: req, done: make(chan callResult, 1), state: "queued"}
	t.mu.Lock()
	t.nextID++
	c.id = t.nextID
	t.calls = append(t.calls, c)
	t.mu.Unlock()
	r := <-c.done
	return r.msg, r.err
}

func (e *endpoint) ProcessPushPull(ctx context.Context, in *model.PushPullMessage, _ ...grpc.CallOption) (*model.PushPullMessage, error) {
	m, err := e.t.issue(e.name, "ProcessPushPull", in)
	if err != nil {
		return nil, err
	}
	return m.(*model.PushPullMessage), nil
}

func (e *endpoint) ProcessClient(ctx context.Context, in *model.ClientMessage, _ ...grpc.CallOption) (*model.ClientMessage, error) {
	m, err := e.t.issue(e.name, "ProcessClient", in)
	if err != nil {
		return nil, err
	}
	return m.(*model.ClientMessage), nil
}

func (e *endpoint) PatchDocument(ctx context.Context, in *model.PatchMessage, _ ...grpc.CallOption) (*model.PatchMessage, error) {
	m, err := e.t.issue(e.name, "PatchDocument", in)
	if err != nil {
		return nil, err
	}
	return m.(*model.PatchMessage), nil
}

func (e *endpoint) CreateCollection(ctx context.Context, in *model.CollectionMessage, _ ...grpc.CallOption) (*model.CollectionMessage, error) {
	m, err := e.t.issue(e.name, "CreateCollection", in)
	if err != nil {
		return nil, err
	}
	return m.(*model.CollectionMessage), nil
}

func (e *endpoint) ResetCollection(ctx context.Context, in *model.CollectionMessage, _ ...grpc.CallOption) (*model.CollectionMessage, error) {
	m, err := e.t.issue(e.name, "ResetCollection", in)
	if err != nil {
		return nil, err
	}
	return m.(*model.CollectionMessage), nil
}

func (e *endpoint) TestEncodingOperation(ctx context.Context, in *model.EncodingMessage, _ ...grpc.CallOption) (*model.EncodingMessage, error) {
	m, err := e.t.issue(e.name, "TestEncodingOperation", in)
	if err != nil {
		return nil, err
	}
	return m.(*model.EncodingMessage), nil
}

// byState returns the calls in a given state, in issue order.
func (t *transport) byState(state string) []*call {
	t.mu.Lock()
	defer t.mu.Unlock()
	var out []*call
	for _, c := range t.calls {
		if c.state == state {
			out = append(out, c)
		}
	}
	return out
}

func unavailable(msg string) error { return status.Error(codes.Unavailable, msg) }

// decodeReq makes a fresh copy of the request, as a server receiving the bytes would.
func (c *call) decodeReq() proto.Message {
	var m proto.Message
	switch c.method {
	case "ProcessPushPull":
		m = &model.PushPullMessage{}
	case "ProcessClient":
		m = &model.ClientMessage{}
	case "PatchDocument":
		m = &model.PatchMessage{}
	case "CreateCollection", "ResetCollection":
		m = &model.CollectionMessage{}
	case "TestEncodingOperation":
		m = &model.EncodingMessage{}
	}
	if err := proto.Unmarshal(c.reqB, m); err != nil {
		panic(err)
	}
	sortPacks(m)
	return m
}

// invoke runs the service method on the given instance with a context that is cancelled when
// the method returns (what gRPC does), and deep-copies the response through protobuf.
func invoke(inst *serverInst, method string, req proto.Message) callResult {
	ctx, cancel := context.WithCancel(context.Background())
	defer cancel()
	var m proto.Message
	var err error
	switch method {
	case "ProcessPushPull":
		m, err = wrap(inst.svc.ProcessPushPull(ctx, req.(*model.PushPullMessage)))
	case "ProcessClient":
		m, err = wrap(inst.svc.ProcessClient(ctx, req.(*model.ClientMessage)))
	case "PatchDocument":
		m, err = wrap(inst.svc.PatchDocument(ctx, req.(*model.PatchMessage)))
	case "CreateCollection":
		m, err = wrap(inst.svc.CreateCollection(ctx, req.(*model.CollectionMessage)))
	case "ResetCollection":
		m, err = wrap(inst.svc.ResetCollection(ctx, req.(*model.CollectionMessage)))
	case "TestEncodingOperation":
		m, err = wrap(inst.svc.TestEncodingOperation(ctx, req.(*model.EncodingMessage)))
	}
	if err != nil {
		st, _ := status.FromError(err)
		return callResult{err: status.Error(st.Code(), st.Message())}
	}
	b, e := proto.Marshal(m)
	if e != nil {
		return callResult{err: status.Error(codes.Internal, e.Error())}
	}
	out := m.ProtoReflect().New().Interface()
	if e := proto.Unmarshal(b, out); e != nil {
		return callResult{err: status.Error(codes.Internal, e.Error())}
	}
	sortPacks(out)
	return callResult{msg: out}
}

func wrap[T proto.Message](m T, err error) (proto.Message, error) {
	if err != nil {
		return nil, err
	}
	return m, nil
}

// sortPacks orders the packs of a push-pull message by key. The client builds them while ranging
// over a Go map and the server collects the answers as they come; nothing depends on the order
// except the reproducibility of the simulation.
// permutePacks: the order the simulator chose for this message (sorted first, then a seeded permutation).
func permutePacks(m proto.Message, seed uint64) {
	pp, ok := m.(*model.PushPullMessage)
	if !ok || len(pp.PushPullPacks) < 2 {
		return
	}
	g := kernel.NewRng(seed)
	for i := len(pp.PushPullPacks) - 1; i > 0; i-- {
		j := g.Intn(i + 1)
		pp.PushPullPacks[i], pp.PushPullPacks[j] = pp.PushPullPacks[j], pp.PushPullPacks[i]
	}
}

func sortPacks(m proto.Message) {
	if pp, ok := m.(*model.PushPullMessage); ok {
		sort.SliceStable(pp.PushPullPacks, func(i, j int) bool { return pp.PushPullPacks[i].Key < pp.PushPullPacks[j].Key })
	}
}
