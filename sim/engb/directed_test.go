package engb

import (
	"encoding/json"
	"fmt"
	"os"
	"strconv"
	"testing"

	"verif/sim/kernel"
)

// TestDirectedNoSnapshotPatch: the creating commit loses its snapshot write (fault position AT, default swept), then
// the REST endpoint patches the document, then everybody syncs.
func TestDirectedNoSnapshotPatch(t *testing.T) {
	lo, hi := 5, 14
	if s := os.Getenv("AT"); s != "" {
		lo, _ = strconv.Atoi(s)
		hi = lo
	}
	for at := lo; at <= hi; at++ {
		for _, kind := range []string{"errBefore", "errAfter"} {
			cfg := Config{Colls: 1, Oracles: map[string]bool{"nocrash": true, "answered": true, "rest": true, "log": true}}
			cfg.Actors = []ActorCfg{{}, {}}
			evs := []Ev{
				{T: "open", A: 0, K: "k1", Kind: "doc", Mode: "create"},
				{T: "local", A: 0, K: "k1", Op: "dput", V: []interface{}{"a", 1.0}},
				{T: "sync", A: 0, MF: []MongoFault{{At: at, Kind: kind}}},
				{T: "patch", A: 0, K: "k1", S: 7, Json: `{"k1":"a","z":1}`},
				{T: "open", A: 1, K: "k1", Kind: "doc", Mode: "subscribe"},
				{T: "sync", A: 1},
				{T: "sync", A: 0},
				{T: "local", A: 1, K: "k1", Op: "dput", V: []interface{}{"b", 2.0}},
				{T: "sync", A: 1},
				{T: "sync", A: 0},
			}
			cb, _ := json.Marshal(cfg)
			plan := &kernel.Plan{Engine: "B", Property: "C19", Seed: 1, Config: cb, Events: encodeEvents(evs)}
			res := Execute(t, plan, nil, os.Getenv("V") != "")
			fmt.Printf("at=%d %s: violation=%v faults=%v\n", at, kind, res.Violation, res.Faults)
			if os.Getenv("V") != "" {
				for _, l := range res.Log {
					fmt.Println("   ", l)
				}
			}
		}
	}
}
