package engb

import (
	"encoding/json"
	"sort"

	"verif/sim/kernel"
)

// Systematic fault placement (C07, C08).
//
// A *base scenario* is a small fault-free plan. It is executed once with Config.Count set, which makes
// the run report, for every exchange event, the database commands that were issued while serving it
// (including the background work after the answer). Then every single placement of the property's
// fault kinds on every exchange (C07: message faults) or on every command of every exchange (C08:
// database faults and server crashes) is executed as a plan of its own; thorough adds pairs.
// The base scenario itself is the fault-free twin the variants are compared with through the
// end-state oracles (every oracle of the property is evaluated on it, too).

// GenBase derives the base scenario of index seed.
func GenBase(prop, tier string, seed uint64) *kernel.Plan {
	g := kernel.NewRng(seed).Derive("enum")
	cfg := Config{Colls: 1, Count: true, Oracles: map[string]bool{"nocrash": true, "answered": true}}
	switch prop {
	case "C07":
		cfg.Oracles["msg"] = true
	case "C08":
		cfg.Oracles["retry"] = true
	}
	nAct := g.Range(2, 3)
	for i := 0; i < nAct; i++ {
		cfg.Actors = append(cfg.Actors, ActorCfg{})
	}
	c := &genCtx{g: g, prop: prop, nAct: nAct, kindOf: map[string]string{}}
	nk := 1
	if g.Chance(1, 3) {
		nk = 2
	}
	for i := 0; i < nk; i++ {
		k := keyPool[i]
		c.keys = append(c.keys, k)
		c.kindOf[k] = kinds[g.Intn(4)]
	}
	var evs []Ev
	for _, k := range c.keys {
		creator := g.Intn(nAct)
		mode := "create"
		if g.Chance(1, 3) {
			mode = "soc"
		}
		evs = append(evs, Ev{T: "open", A: creator, K: k, Kind: c.kindOf[k], Mode: mode})
		if g.Chance(2, 3) {
			evs = append(evs, c.localEv(creator))
		}
		evs = append(evs, Ev{T: "sync", A: creator})
		for a := 0; a < nAct; a++ {
			if a == creator {
				continue
			}
			m := "subscribe"
			if g.Chance(1, 2) {
				m = "soc"
			}
			evs = append(evs, Ev{T: "open", A: a, K: k, Kind: c.kindOf[k], Mode: m})
			if g.Chance(1, 2) {
				evs = append(evs, Ev{T: "sync", A: a})
			}
		}
	}
	nev := g.Range(6, 15)
	if tier == "thorough" {
		nev = g.Range(6, 24)
	}
	wWire := 0
	if prop == "C07" {
		wWire = 12
	}
	hasTx := false
	for i := 0; i < nev; i++ {
		a := g.Intn(nAct)
		switch g.Pick([]int{45, 10, 35, wWire, 2}) {
		case 0:
			evs = append(evs, c.localEv(a))
		case 1:
			tx := Ev{T: "tx", A: a, D: g.Intn(3), Fail: g.Chance(1, 5)}
			for k := g.Range(2, 4); k > 0; k-- {
				b := c.localEv(a)
				b.D = tx.D
				tx.Body = append(tx.Body, b)
			}
			hasTx = hasTx || !tx.Fail
			evs = append(evs, tx)
		case 2:
			evs = append(evs, Ev{T: "sync", A: a})
		case 3:
			evs = append(evs, Ev{T: "wire", A: a})
		case 4:
			if tier == "thorough" && prop == "C08" {
				evs = append(evs, Ev{T: "burst", A: a, D: g.Intn(3), N: g.Intn(150)})
			} else {
				evs = append(evs, Ev{T: "advance", Dur: []int64{1, 50, 6000, 86400000}[g.Intn(4)]})
			}
		}
	}
	if !hasTx {
		a := g.Intn(nAct)
		tx := Ev{T: "tx", A: a, D: g.Intn(3)}
		for k := 2; k > 0; k-- {
			b := c.localEv(a)
			b.D = tx.D
			tx.Body = append(tx.Body, b)
		}
		evs = append(evs, tx)
	}
	// everything issued so far is pushed inside the scenario (so that its push can be faulted)
	for a := 0; a < nAct; a++ {
		evs = append(evs, Ev{T: "sync", A: a})
	}
	cb, _ := json.Marshal(cfg)
	return &kernel.Plan{Engine: "B", Property: prop, Seed: seed, Config: cb, Events: encodeEvents(evs)}
}

type placement struct {
	ev  int
	mod func(e *Ev)
	tag string
}

func msgPlacements(evs []Ev) []placement {
	var out []placement
	for i, e := range evs {
		switch e.T {
		case "sync":
			out = append(out,
				placement{i, func(e *Ev) { e.Resp = "drop" }, "resp-drop"},
				placement{i, func(e *Ev) { e.Req, e.S = "dup", 1 }, "req-dup-seq"},
				placement{i, func(e *Ev) { e.Req, e.S = "dup", 2 }, "req-dup-race"},
				placement{i, func(e *Ev) { e.Req, e.S = "dup", 4 }, "req-dup-race2"},
				placement{i, func(e *Ev) { e.Req = "lost" }, "req-lost"})
		case "wire":
			out = append(out,
				placement{i, func(e *Ev) { e.Mode = "repush" }, "wire-repush"},
				placement{i, func(e *Ev) { e.Mode = "reapply" }, "wire-reapply"},
				placement{i, func(e *Ev) { e.Mode, e.N = "stale", 0 }, "wire-stale0"},
				placement{i, func(e *Ev) { e.Mode, e.N = "stale", 1 }, "wire-stale1"},
				placement{i, func(e *Ev) { e.Resp = "drop" }, "wire-resp-drop"})
		}
	}
	return out
}

func dbPlacements(evs []Ev, cmds map[int][]string) []placement {
	var out []placement
	idx := make([]int, 0, len(cmds))
	for i := range cmds {
		idx = append(idx, i)
	}
	sort.Ints(idx)
	for _, i := range idx {
		if i >= len(evs) || evs[i].T != "sync" {
			continue
		}
		for k, name := range cmds[i] {
			at := k + 1
			ks := []string{"errBefore", "errAfter", "crashBefore", "crashAfter"}
			if name == "insert" {
				ks = append(ks, "partial")
			}
			for _, kind := range ks {
				kind := kind
				out = append(out, placement{i, func(e *Ev) { e.MF = append(e.MF, MongoFault{At: at, Kind: kind}) }, kind})
			}
		}
	}
	return out
}

// Placements returns the variants of a base scenario: every single placement, and (thorough) up to
// maxPairs pairs of placements on different events drawn from the scenario's own generator.
func Placements(prop, tier string, base *kernel.Plan, cmds map[int][]string, maxPairs int) []*kernel.Plan {
	evs, err := decodeEvents(base.Events)
	if err != nil {
		return nil
	}
	var cfg Config
	_ = json.Unmarshal(base.Config, &cfg)
	cfg.Count = false
	cb, _ := json.Marshal(cfg)
	var ps []placement
	switch prop {
	case "C07":
		ps = msgPlacements(evs)
	case "C08":
		ps = dbPlacements(evs, cmds)
	}
	mk := func(sel ...placement) *kernel.Plan {
		cp := make([]Ev, len(evs))
		copy(cp, evs)
		for _, p := range sel {
			e := cp[p.ev]
			e.MF = append([]MongoFault{}, e.MF...)
			p.mod(&e)
			cp[p.ev] = e
		}
		return &kernel.Plan{Engine: "B", Property: prop, Seed: base.Seed, Config: cb, Events: encodeEvents(cp)}
	}
	var out []*kernel.Plan
	for _, p := range ps {
		out = append(out, mk(p))
	}
	if maxPairs > 0 && len(ps) > 1 {
		g := kernel.NewRng(base.Seed).Derive("pairs")
		type pr struct{ a, b int }
		var all []pr
		for a := 0; a < len(ps); a++ {
			for b := a + 1; b < len(ps); b++ {
				if ps[a].ev != ps[b].ev {
					all = append(all, pr{a, b})
				}
			}
		}
		if len(all) > maxPairs {
			// seeded sample without replacement
			for i := 0; i < maxPairs; i++ {
				j := i + g.Intn(len(all)-i)
				all[i], all[j] = all[j], all[i]
			}
			all = all[:maxPairs]
		}
		for _, q := range all {
			out = append(out, mk(ps[q.a], ps[q.b]))
		}
	}
	return out
}
