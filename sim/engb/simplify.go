package engb

import "verif/sim/kernel"

// Simplify returns one-change candidates of a plan for the shrinker's second phase.
func Simplify(p *kernel.Plan) []*kernel.Plan {
	evs, err := decodeEvents(p.Events)
	if err != nil {
		return nil
	}
	var out []*kernel.Plan
	emit := func(i int, e Ev) {
		cp := append([]Ev{}, evs...)
		cp[i] = e
		q := *p
		q.Events = encodeEvents(cp)
		out = append(out, &q)
	}
	for i, e := range evs {
		if len(e.MF) > 0 {
			x := e
			x.MF = nil
			emit(i, x)
		}
		if e.Req != "" {
			x := e
			x.Req = ""
			emit(i, x)
		}
		if e.Resp != "" {
			x := e
			x.Resp = ""
			emit(i, x)
		}
		if e.Post != "" {
			x := e
			x.Post = ""
			emit(i, x)
		}
		if len(e.V) > 1 {
			x := e
			x.V = e.V[:1]
			emit(i, x)
		}
		if len(e.V) == 1 {
			switch e.V[0].(type) {
			case map[string]interface{}, []interface{}:
				x := e
				x.V = []interface{}{"x"}
				emit(i, x)
			}
		}
		if e.T == "tx" || (e.T == "group" && len(e.Body) > 1) {
			for j := range e.Body {
				x := e
				x.Body = append(append([]Ev{}, e.Body[:j]...), e.Body[j+1:]...)
				emit(i, x)
			}
		}
		if e.T == "par" && len(e.Par) > 2 {
			x := e
			x.Par = e.Par[:len(e.Par)-1]
			emit(i, x)
		}
		if e.T == "advance" && e.Dur > 1 {
			x := e
			x.Dur = 1
			emit(i, x)
		}
		if e.S != 0 && e.T != "local" {
			x := e
			x.S = 0
			emit(i, x)
		}
	}
	return out
}
