package engb

import (
	"encoding/json"
	"fmt"
	"github.com/orda-io/orda/server/schema"
	"os"
	"regexp"
	"runtime"
	"sort"
	"strings"
	"testing"
	"testing/synctest"
	"time"

	"github.com/orda-io/orda/client/pkg/model"
	"google.golang.org/grpc/codes"
	"google.golang.org/grpc/status"

	"verif/sim/kernel"
	"verif/sim/simmongo"
)

type abortRun struct{}

type run struct {
	prop         string
	cfg          Config
	w            *world
	res          *kernel.Result
	viol         *kernel.Violation
	known        map[string]bool
	step         int
	verbose      bool
	trace        *kernel.Hasher
	slog         *kernel.Hasher
	states       map[uint64]bool
	colls        []string
	lagging      map[string]bool   // owners whose background work is deliberately left pending
	lagAfter     int               // background commands of an answered call that are let through before it is left pending
	bgDone       map[string]int    // background commands answered per owner
	insertedBy   map[string]string // operation document id -> owner of the insert command that stored it
	held         []*heldResp
	cmdNo        map[string]int // per owner: number of commands answered so far
	mon          *monitors
	decisions    int
	simStart     time.Time
	stuck        bool
	inTx         bool
	stalled      map[*simmongo.Pending]int // database commands the simulated database is slow to answer
	rd           *reader                   // the read-only observer, if the plan has one
	holdNext     map[string]int            // client name: its next push-pull answer is held back for that many events
	whileStalled func() bool               // called (until it says it is done) when only commands the database sits on are left
	cur          *curSync                  // the exchange event being driven (late joiners are added to it)
	evSlow       int                       // this event: commands during which the whole database was slow (time jumped)
	evStall      []string                  // this event: the commands the database sat on while everything else went on
	rogueLog     []string                  // scenario runs: outcome of every rogue request
	restLog      []string                  // scenario runs: outcome of every REST call
	verHist      map[string][]string       // scenario runs: versions seen in each user document, in order
	storm        map[string]bool           // clients that re-send a refused request without end: their requests are no longer delivered
	evOwners     map[int][]string          // event index -> owners (calls) of its exchange
	cmdNames     map[string][]string       // owner -> names of its database commands in order
}

type heldResp struct {
	c     *call
	after int // release after this many further events
}

func (r *run) on(f string) bool { return r.cfg.Oracles[f] }

func (r *run) fail(family, oracle, fp, format string, a ...interface{}) {
	if !r.on(family) {
		return
	}
	v := &kernel.Violation{Property: r.prop, Oracle: oracle, Fingerprint: fp, Message: fmt.Sprintf(format, a...), Step: r.step}
	if r.known[v.Key()] {
		r.res.Known = append(r.res.Known, v.Key())
		panic(abortRun{})
	}
	r.viol = v
	panic(abortRun{})
}

func (r *run) probe(n string) { r.res.Probes[n]++ }
func (r *run) fault(n string) { r.res.Faults[n]++ }

var liveLog = os.Getenv("VERIF_LIVELOG") != ""

func (r *run) logf(f string, a ...interface{}) {
	if liveLog {
		fmt.Fprintf(os.Stderr, "LIVE %03d "+f+"\n", append([]interface{}{r.step}, a...)...)
	}
	if r.verbose {
		r.res.Log = append(r.res.Log, fmt.Sprintf("%03d t=%-8s ", r.step, time.Since(r.simStart).Round(time.Millisecond))+fmt.Sprintf(f, a...))
	}
}

func panicSite() string {
	pcs := make([]uintptr, 64)
	n := runtime.Callers(3, pcs)
	frames := runtime.CallersFrames(pcs[:n])
	for {
		fr, more := frames.Next()
		if strings.Contains(fr.Function, "orda-io/orda/") {
			fn := fr.Function
			if i := strings.LastIndex(fn, "/"); i >= 0 {
				fn = fn[i+1:]
			}
			return fn
		}
		if !more {
			break
		}
	}
	return "unknown"
}

// safely runs f on the simulator goroutine and converts a SUT panic into (message, site).
func safely(f func()) (pmsg, pfp string) {
	defer func() {
		if x := recover(); x != nil {
			if _, ok := x.(abortRun); ok {
				panic(x)
			}
			pmsg, pfp = fmt.Sprint(x), panicSite()
		}
	}()
	f()
	return
}

// Execute runs one plan inside a synctest bubble.
func Execute(t *testing.T, plan *kernel.Plan, known map[string]bool, verbose bool) (res *kernel.Result) {
	var cfg Config
	if err := json.Unmarshal(plan.Config, &cfg); err != nil {
		panic("bad config: " + err.Error())
	}
	evs, err := decodeEvents(plan.Events)
	if err != nil {
		panic("bad events: " + err.Error())
	}
	logToNowhere = plan.Property == "C12"
	r := &run{prop: plan.Property, cfg: cfg, known: known, verbose: verbose,
		res:   &kernel.Result{Faults: map[string]int{}, Probes: map[string]int{}},
		trace: kernel.NewHasher(), slog: kernel.NewHasher(), states: map[uint64]bool{},
		lagging: map[string]bool{}, bgDone: map[string]int{}, insertedBy: map[string]string{}, cmdNo: map[string]int{}, stalled: map[*simmongo.Pending]int{},
		evOwners: map[int][]string{}, cmdNames: map[string][]string{}, storm: map[string]bool{}}
	finish := func() {
		r.res.Violation = r.viol
		r.res.Steps = r.decisions
		r.res.TraceHash = r.trace.Sum()
		r.res.StateHash = r.slog.Sum()
		for s := range r.states {
			r.res.States = append(r.res.States, s)
		}
		r.res.Nontrivial = r.nontrivial()
		if r.cfg.Count {
			r.res.EvCmds = map[int][]string{}
			for i, os := range r.evOwners {
				if len(os) == 1 && i < len(evs) {
					r.res.EvCmds[i] = r.cmdNames[os[0]]
				}
			}
		}
	}
	func() {
		defer func() {
			if x := recover(); x != nil {
				msg := fmt.Sprint(x)
				if strings.Contains(msg, "deadlock") || strings.Contains(msg, "blocked goroutines") {
					// goroutines left blocked when the bubble ended
					if r.viol == nil && !r.stuck {
						r.res.Probes["bubble-leftover"]++
					}
					return
				}
				panic(x)
			}
		}()
		synctest.Test(t, func(t *testing.T) {
			r.simStart = time.Now()
			seam.reset(false)
			installSeamHooks()
			w := newWorld(t, plan.Seed)
			r.w = w
			defer w.close()
			func() {
				defer func() {
					if x := recover(); x != nil {
						if _, ok := x.(abortRun); !ok {
							panic(x)
						}
					}
				}()
				r.body(evs)
			}()
			r.res.SimNanos = int64(time.Since(r.simStart))
			seam.off()
			r.teardown()
		})
	}()
	finish()
	return r.res
}

func (r *run) nontrivial() bool {
	p := r.res.Probes
	switch r.prop {
	case "C07":
		return r.res.Faults["resp-drop"]+r.res.Faults["req-dup"]+r.res.Faults["resp-late"]+r.res.Faults["req-lost"] > 0 && p["push-with-pull"] > 0
	case "C08":
		n := 0
		for k, v := range r.res.Faults {
			if strings.HasPrefix(k, "mongo-") || k == "server-crash" {
				n += v
			}
		}
		return n > 0
	case "C11":
		return p["snapshot-docs-checked"] > 0
	case "C12":
		return p["par-calls"] >= 2
	case "C13":
		return p["open-subscribe"]+p["open-soc"]+p["open-refused"] > 0
	case "C16":
		return p["rogue-sent"] > 0
	case "C17":
		return p["cross-collection"]+p["reset"] > 0
	case "C18":
		return p["publish-checked"] > 0
	case "C19":
		return p["rest-patch"] > 0
	}
	return p["push-with-pull"] > 0 && p["pushers"] >= 2
}

func (r *run) teardown() {
	w := r.w
	// let everything in flight finish: answer whatever is pending without faults
	defer func() { recover() }()
	quiet := 0
	for i := 0; i < 400; i++ {
		synctest.Wait()
		progressed := false
		for _, c := range w.tr.byState("queued") {
			c.state = "finished"
			c.done <- callResult{err: unavailable("simulation ends")}
			progressed = true
		}
		for _, c := range w.tr.byState("answered") {
			c.state = "finished"
			c.done <- *c.resp
			progressed = true
		}
		for _, p := range w.mongo.PendingList() {
			w.mongo.Answer(p, simmongo.FaultNone)
			progressed = true
		}
		for _, d := range w.br.deliverable() {
			w.br.deliver(d, true)
			progressed = true
		}
		for _, h := range w.br.heldList() {
			w.br.releasePub(h)
			progressed = true
		}
		for _, y := range seam.list() {
			seam.let(y)
			progressed = true
		}
		if !progressed {
			busy := len(w.tr.byState("running")) > 0
			for _, a := range w.actors {
				a.mu.Lock()
				if a.syncing > 0 {
					busy = true
				}
				a.mu.Unlock()
			}
			quiet++
			if !busy && quiet >= 3 {
				break
			}
			// background goroutines (snapshot updates, the driver re-discovering its server after a
			// dropped connection) need simulated time before they show up as pending commands or finish
			time.Sleep(3 * time.Second)
		} else {
			quiet = 0
		}
	}
	for _, a := range w.actors {
		if a.connected {
			done := make(chan struct{})
			go func(a *actor) {
				defer close(done)
				defer func() { recover() }()
				_ = a.client.Close()
			}(a)
			synctest.Wait()
			select {
			case <-done:
			default:
			}
		}
	}
	if len(w.oldInsts) > 0 {
		time.Sleep(10 * time.Second) // operations of dead instances give up (server selection timeout)
		synctest.Wait()
		for _, o := range w.oldInsts {
			w.stopInstance(o)
		}
	}
	w.stopServer()
	w.mongo.CloseAll()
	time.Sleep(time.Millisecond)
	synctest.Wait()
}

// ---------------------------------------------------------------- pending things

type item struct {
	kind string // req | cmd | resp | mqtt
	key  string
	c    *call
	p    *simmongo.Pending
	d    *mqttDelivery
	h    *heldPub
	y    *heldYield
}

func callOwner(c *call) string { return fmt.Sprintf("rpc%04d", c.id) }

type focus struct {
	all    bool
	calls  map[*call]bool
	owners map[string]bool
	mqtt   bool
	lag    bool // include owners marked lagging
}

func (r *run) items(f *focus) []item {
	w := r.w
	var out []item
	for _, c := range w.tr.byState("queued") {
		if r.storm[c.client] {
			continue
		}
		if f.all || f.calls[c] {
			out = append(out, item{kind: "req", key: fmt.Sprintf("%04d", c.id), c: c})
		}
	}
	for _, p := range w.mongo.PendingList() {
		if r.lagging[p.Owner] && !f.lag {
			continue
		}
		if r.stalled[p] > 0 {
			continue
		}
		if f.all || f.owners[p.Owner] {
			out = append(out, item{kind: "cmd", key: p.Owner + "|" + p.Key, p: p})
		}
	}
	for _, c := range w.tr.byState("answered") {
		if r.isHeld(c) {
			continue
		}
		if f.all || f.calls[c] {
			out = append(out, item{kind: "resp", key: fmt.Sprintf("%04d", c.id), c: c})
		}
	}
	for _, y := range seam.list() {
		if r.lagging[y.owner] && !f.lag {
			continue
		}
		if f.all || f.owners[y.owner] {
			out = append(out, item{kind: "yld", key: y.key(), y: y})
		}
	}
	for _, h := range w.br.heldList() {
		if r.lagging[h.owner] && !f.lag {
			continue
		}
		if f.all || f.mqtt || f.owners[h.owner] {
			out = append(out, item{kind: "pub", key: h.key(), h: h})
		}
	}
	if f.all || f.mqtt {
		for _, d := range w.br.deliverable() {
			out = append(out, item{kind: "mqtt", key: fmt.Sprintf("%s|%06d", d.to.name, d.id), d: d})
		}
	}
	sort.SliceStable(out, func(i, j int) bool {
		if out[i].kind != out[j].kind {
			return out[i].kind < out[j].kind
		}
		return out[i].key < out[j].key
	})
	return out
}

func (r *run) isHeld(c *call) bool {
	for _, h := range r.held {
		if h.c == c {
			return true
		}
	}
	return false
}

// release hands a queued request to the current server instance.
func (r *run) release(c *call) {
	w := r.w
	inst := w.inst
	c.state = "running"
	c.inst = inst
	c.copies++
	w.mongo.SetOwner(callOwner(c))
	req := c.decodeReq()
	r.mon.onRequest(r, c, req)
	owner := callOwner(c)
	go func() {
		simmongo.RegisterOwner(owner)
		res := r.serve(inst, c, req)
		w.tr.mu.Lock()
		if c.state == "running" {
			c.resp = &res
			c.state = "answered"
		}
		w.tr.mu.Unlock()
	}()
}

// serve runs the service method; a panic that escapes it is what kills a real server process.
func (r *run) serve(inst *serverInst, c *call, req interface{}) (res callResult) {
	defer func() {
		if inst.dead {
			res = callResult{err: unavailable("server instance went down")}
		}
	}()
	req2 := c.decodeReq()
	if r.cfg.PackOrder {
		permutePacks(req2, kernel.Mix64(r.w.seed, uint64(c.id), uint64(c.copies), 1))
	}
	return invoke(inst, c.method, req2)
}

// answerCmd lets one database command proceed, applying the exchange's fault plan.
func (r *run) answerCmd(p *simmongo.Pending, faults []MongoFault) {
	w := r.w
	r.cmdNo[p.Owner]++
	k := r.cmdNo[p.Owner]
	if r.cfg.Count {
		r.cmdNames[p.Owner] = append(r.cmdNames[p.Owner], p.Name)
	}
	kind := simmongo.FaultNone
	crash := ""
	for _, f := range faults {
		if f.At == k {
			switch f.Kind {
			case "errBefore":
				kind = simmongo.FaultErrBefore
			case "errAfter":
				kind = simmongo.FaultErrAfter
			case "errIfInsert":
				// scenarios: "the insert into the operations collection fails", wherever it comes in the commit
				if p.Name == "insert" {
					kind = simmongo.FaultErrBefore
				}
			case "partial":
				if p.Name == "insert" {
					kind = simmongo.FaultPartial
				} else {
					kind = simmongo.FaultErrBefore
				}
			case "crashBefore", "crashAfter":
				crash = f.Kind
			case "slow":
				r.fault("mongo-slow")
				r.evSlow++
				total := time.Duration(5500+w.lat.Intn(3000)) * time.Millisecond
				if r.cur != nil && len(r.cur.late) > 0 {
					at := 5050 * time.Millisecond
					if r.cur.lateAt > 0 {
						// a holder that is slower than any lease or expiry anybody might have in mind (10 s is
						// what the Redis lock of a multi-server deployment uses)
						at = time.Duration(r.cur.lateAt)*time.Second + 50*time.Millisecond
						total = at + time.Duration(500+w.lat.Intn(1500))*time.Millisecond
					}
					w.tick(at)
					r.joinLate()
					total -= at
				}
				w.tick(total)
			case "stall":
				// the database sits on this command while everything else goes on
				if _, seen := r.stalled[p]; !seen {
					r.cmdNo[p.Owner]--
					r.fault("mongo-stall")
					r.evStall = append(r.evStall, p.Coll+" "+p.Key)
					r.stalled[p] = 8 + w.lat.Intn(20)
					r.logf("  db %s #%d %s is stalled", p.Owner, k, p.Name)
					return
				}
			}
		}
	}
	if kind != simmongo.FaultNone {
		r.fault("mongo-" + kind)
	}
	r.logf("  db %s #%d %s %s fault=%q crash=%q", p.Owner, k, p.Name, clip(p.Key, 160), kind, crash)
	r.trace.Str("cmd").Str(p.Name).Str(kind + crash)
	w.mongo.SetOwner(p.Owner)
	switch crash {
	case "crashBefore":
		r.crashServer()
		return
	case "crashAfter":
		w.mongo.Answer(p, simmongo.FaultErrAfter)
		synctest.Wait()
		r.crashServer()
		return
	}
	if p.Name == "insert" && p.Coll == schema.CollectionNameOperations && kind != simmongo.FaultErrBefore {
		// who stored which operation document (exact, for the notification oracle)
		for _, m := range opDocID.FindAllStringSubmatch(p.Key, -1) {
			r.insertedBy[m[1]] = p.Owner
		}
	}
	w.mongo.Answer(p, kind)
}

var opDocID = regexp.MustCompile(`"_id":"([^"]+:[0-9]+)"`)

var noClip = os.Getenv("VERIF_NOCLIP") != ""

func clip(s string, n int) string {
	if len(s) > n && !noClip {
		return s[:n] + "…"
	}
	return s
}

// crashServer kills the current orda server instance and starts a new one over the durable image.
func (r *run) crashServer() {
	w := r.w
	old := w.inst
	old.dead = true
	r.fault("server-crash")
	w.br.mu.Lock()
	w.br.deadPub[old.mq.name] = true
	w.br.mu.Unlock()
	w.mongo.KillInstance(old.id)
	for _, h := range w.br.heldList() {
		if h.from == old.mq.name {
			w.br.releasePub(h)
		}
	}
	for _, y := range seam.list() {
		seam.let(y)
	}
	// in-flight handler goroutines run into connection errors and end; give them simulated time
	for i := 0; i < 40; i++ {
		synctest.Wait()
		if len(w.tr.byState("running")) == 0 {
			break
		}
		time.Sleep(500 * time.Millisecond)
	}
	for _, c := range w.tr.byState("running") {
		// a handler that never returns after its database went away
		w.tr.mu.Lock()
		res := callResult{err: unavailable("server instance went down")}
		c.resp, c.state = &res, "answered"
		w.tr.mu.Unlock()
	}
	w.oldInsts = append(w.oldInsts, old) // its driver client is disconnected at teardown, once nothing uses it any more
	r.logf("server instance %d crashed; restarting", old.id)
	if err := w.startServer(); err != nil {
		r.harness("restart failed: %v", err)
	}
}

type harnessError struct{ msg string }

func (h harnessError) Error() string { return h.msg }

func (r *run) harness(format string, a ...interface{}) {
	msg := fmt.Sprintf(format, a...)
	if r.w != nil {
		msg = fmt.Sprintf("%s (plan seed %d, step %d)", msg, r.w.seed, r.step)
	}
	if r.verbose {
		tail := 60
		if noClip {
			tail = len(r.res.Log)
		}
		for _, l := range r.res.Log[max(0, len(r.res.Log)-tail):] {
			fmt.Fprintln(os.Stderr, "   ", l)
		}
	}
	panic(harnessError{msg})
}

// deliverResp hands the server's answer (or a transport error) back to the waiting client.
func (r *run) deliverResp(c *call, drop bool) {
	c.state = "finished"
	res := *c.resp
	if drop {
		res = callResult{err: unavailable("response lost")}
		c.dropped = true
	} else if r.cfg.PackOrder && res.msg != nil {
		permutePacks(res.msg, kernel.Mix64(r.w.seed, uint64(c.id), uint64(c.copies), 2))
	}
	r.mon.onResponse(r, c, res, drop)
	r.noteErrorPacks(c, res)
	c.done <- res
}

func clientCheckPoint(d *dtState) (sseq, cseq uint64) {
	p := d.dt.CreatePushPullPack()
	if p == nil || p.CheckPoint == nil {
		return 0, 0
	}
	return p.CheckPoint.Sseq, p.CheckPoint.Cseq - uint64(len(p.Operations))
}

// noteErrorPacks remembers, for every pack with the error bit that is about to reach an honest client,
// what the client's datatype looked like before.
func (r *run) noteErrorPacks(c *call, res callResult) {
	if res.err != nil {
		return
	}
	resp, _ := res.msg.(*model.PushPullMessage)
	a := r.actorByName(c.client)
	if resp == nil || a == nil {
		return
	}
	for _, p := range resp.PushPullPacks {
		if !p.GetPushPullPackOption().HasErrorBit() {
			continue
		}
		for _, d := range a.dts {
			if d.key != p.Key {
				continue
			}
			ps := preState{d: d, state: d.dt.GetState().String(), opt: p.GetPushPullPackOption().String()}
			msg, _ := safely(func() { ps.sseq, ps.cseq = clientCheckPoint(d) })
			if msg != "" {
				continue
			}
			d.mu.Lock()
			ps.errs = len(d.errs)
			d.mu.Unlock()
			if c.pre == nil {
				c.pre = map[string]preState{}
			}
			c.pre[p.Key] = ps
		}
	}
}

// checkErrorPacks: a refusal reaches the error handler, is not taken for an acceptance and moves nothing.
func (r *run) checkErrorPacks(c *call) {
	for _, k := range sortedKeys(c.pre) {
		ps := c.pre[k]
		d := ps.d
		d.mu.Lock()
		nerr := len(d.errs)
		d.mu.Unlock()
		r.probe("error-pack-delivered")
		if nerr <= ps.errs && !d.noErr {
			r.fail("refuse", "C16.error-reported", "handler-not-called", "%s: the answer for %s carried an error (option %s) but the client's error handler was not called", c.client, k, ps.opt)
			r.fail("retry", "C08.error-reported", "handler-not-called", "%s: the answer for %s carried an error (option %s) but the client's error handler was not called", c.client, k, ps.opt)
		}
		now := d.dt.GetState().String()
		if now == "SUBSCRIBED" && ps.state != "SUBSCRIBED" {
			r.fail("refuse", "C16.error-not-applied", "became-subscribed", "%s: the answer for %s carried an error (option %s) but the datatype went from %s to SUBSCRIBED", c.client, k, ps.opt, ps.state)
			r.fail("retry", "C08.error-not-applied", "became-subscribed", "%s: the answer for %s carried an error (option %s) but the datatype went from %s to SUBSCRIBED", c.client, k, ps.opt, ps.state)
		}
		var s2, c2 uint64
		if msg, _ := safely(func() { s2, c2 = clientCheckPoint(d) }); msg == "" && (s2 != ps.sseq || c2 != ps.cseq) {
			r.fail("refuse", "C16.error-not-applied", "checkpoint-moved", "%s: the answer for %s carried an error (option %s) but the client's checkpoint moved from (s:%d c:%d) to (s:%d c:%d)", c.client, k, ps.opt, ps.sseq, ps.cseq, s2, c2)
			r.fail("retry", "C08.error-not-applied", "checkpoint-moved", "%s: the answer for %s carried an error (option %s) but the client's checkpoint moved from (s:%d c:%d) to (s:%d c:%d)", c.client, k, ps.opt, ps.sseq, ps.cseq, s2, c2)
		}
	}
	c.pre = nil
}

// pump makes progress on the things in focus until nothing in focus is pending.
// choose == nil → canonical order (first item); otherwise seeded choice.
func (r *run) pump(f *focus, g *kernel.Rng, faults []MongoFault, stopAnswered bool, respMode string) {
	w := r.w
	idle := 0
	released := map[string]int{}
	for guard := 0; guard < 4000; guard++ {
		synctest.Wait()
		its := r.items(f)
		if stopAnswered {
			// background work of answered calls stays pending ("lag")
			var keep []item
			for _, it := range its {
				if it.kind == "cmd" && r.ownerAnswered(it.p.Owner) && r.bgDone[it.p.Owner] >= r.lagAfter {
					r.lagging[it.p.Owner] = true
					continue
				}
				if it.kind == "pub" && r.ownerAnswered(it.h.owner) && r.lagAfter == 0 {
					// the background goroutine is left behind before it has done anything: its notification
					// is not out and it has not asked for the snapshot lock yet
					r.lagging[it.h.owner] = true
					continue
				}
				keep = append(keep, it)
			}
			its = keep
		}
		if respMode != "" {
			var keep []item
			for _, it := range its {
				if it.kind == "resp" && f.calls[it.c] {
					continue // handled by the caller
				}
				keep = append(keep, it)
			}
			its = keep
		}
		for p, n := range r.stalled {
			if n > 0 {
				r.stalled[p] = n - 1
			}
		}
		if len(its) == 0 && r.anyStalled() && r.whileStalled != nil {
			h := r.whileStalled
			r.whileStalled = nil
			if !h() {
				r.whileStalled = h
			}
		}
		if len(its) == 0 && r.anyStalled() {
			// only the stalled command is left: time passes (lock leases may run out), then it is answered
			idle++
			if idle < 24 {
				time.Sleep(500 * time.Millisecond)
				continue
			}
			for p := range r.stalled {
				r.stalled[p] = 0
			}
			idle = 0
			continue
		}
		if len(its) == 0 {
			if !r.focusBusy(f) {
				return
			}
			// something in focus is still running but nothing is pending: it waits for time (lock lease, timer)
			idle++
			if idle > 80 {
				r.stuck = true
				r.hang(f)
				return
			}
			time.Sleep(500 * time.Millisecond)
			continue
		}
		idle = 0
		var it item
		if g == nil {
			it = its[0]
		} else {
			it = its[g.Intn(len(its))]
		}
		r.decisions++
		switch it.kind {
		case "req":
			r.logf("  deliver request %s %s of %s", callOwner(it.c), it.c.method, it.c.client)
			r.trace.Str("req").Str(it.c.method)
			released[it.c.client]++
			if released[it.c.client] > 150 && !r.storm[it.c.client] {
				// A (realtime) client keeps re-sending a request the server keeps refusing, as fast as the
				// answers come (see DESIGN §10-24). The run would never become quiet: from here on this
				// client's requests stay in the network. What it has (not) achieved is judged by the
				// end-state oracles as for everybody else.
				r.storm[it.c.client] = true
				r.probe("request-storm")
				r.logf("  %s re-sends a refused request without end: its requests are no longer delivered", it.c.client)
			}
			r.release(it.c)
		case "cmd":
			if r.ownerAnswered(it.p.Owner) {
				r.bgDone[it.p.Owner]++
			}
			r.answerCmd(it.p, faults)
		case "resp":
			if n := r.holdNext[it.c.client]; n > 0 && it.c.method == "ProcessPushPull" && !r.explicitSyncOutstanding(it.c.client) {
				// the network is slow on this answer: it arrives after the next n events (other
				// exchanges of the same client - a pull caused by a notification - may overtake it)
				delete(r.holdNext, it.c.client)
				r.held = append(r.held, &heldResp{c: it.c, after: n})
				r.fault("resp-late")
				r.logf("  response of %s to %s is held back for %d events", callOwner(it.c), it.c.client, n)
				break
			}
			r.logf("  deliver response of %s to %s", callOwner(it.c), it.c.client)
			r.trace.Str("resp")
			r.deliverResp(it.c, false)
		case "yld":
			r.logf("  %s goes on at %s", it.y.owner, it.y.site)
			r.trace.Str("yld").Str(it.y.site)
			r.probe("server-scheduling-point")
			seam.let(it.y)
		case "pub":
			r.logf("  publish of %s goes out: %s %s", it.h.owner, it.h.topic, string(it.h.payload))
			r.trace.Str("pub")
			r.probe("publish-held-then-released")
			w.br.releasePub(it.h)
		case "mqtt":
			r.logf("  deliver notification %s to %s", string(it.d.payload), it.d.to.name)
			r.trace.Str("mqtt")
			r.deliverNotification(it.d)
		}
		w.tick(w.smallLatency())
	}
	r.harness("pump did not terminate")
}

// explicitSyncOutstanding: the application itself is inside Sync() (perhaps still waiting for the
// delivery semaphore). An answer to that exchange is not held back: operations issued while an
// explicit Sync() holds the semaphore stay in the buffer until the next delivery - C18 speaks of
// clients that only perform local operations (DESIGN 11.2, engine C as second engine of C18).
func (r *run) explicitSyncOutstanding(client string) bool {
	a := r.actorByName(client)
	if a == nil {
		return false
	}
	a.mu.Lock()
	defer a.mu.Unlock()
	return a.syncing > 0
}

// hasPending: are database commands of this owner waiting for an answer?
func (r *run) hasPending(owner string) bool {
	for _, p := range r.w.mongo.PendingList() {
		if p.Owner == owner {
			return true
		}
	}
	for _, y := range seam.list() {
		if y.owner == owner {
			return true
		}
	}
	for _, h := range r.w.br.heldList() {
		if h.owner == owner {
			return true
		}
	}
	return false
}

func (r *run) anyStalled() bool {
	for _, n := range r.stalled {
		if n > 0 {
			return true
		}
	}
	return false
}

func (r *run) ownerAnswered(owner string) bool {
	r.w.tr.mu.Lock()
	defer r.w.tr.mu.Unlock()
	for _, c := range r.w.tr.calls {
		if callOwner(c) == owner {
			return c.state == "answered" || c.state == "finished"
		}
	}
	return true
}

// focusBusy: is any call in focus still being served, or any actor still inside Sync?
func (r *run) focusBusy(f *focus) bool {
	w := r.w
	for _, c := range w.tr.byState("running") {
		if f.all || f.calls[c] {
			return true
		}
	}
	return false
}

// hang: a request in focus did not return within 40 simulated seconds without anything pending.
func (r *run) hang(f *focus) {
	var who []string
	for _, c := range r.w.tr.byState("running") {
		if f.all || f.calls[c] {
			who = append(who, fmt.Sprintf("%s %s of %s", callOwner(c), c.method, c.client))
		}
	}
	buf := make([]byte, 1<<16)
	n := runtime.Stack(buf, true)
	stacks := string(buf[:n])
	if os.Getenv("VERIF_DUMP") != "" {
		fmt.Fprintln(os.Stderr, stacks)
	}
	site := "unknown"
	for _, blk := range strings.Split(stacks, "\n\n") {
		if strings.Contains(blk, "orda-io/orda/server/") && (strings.Contains(blk, "chan receive") || strings.Contains(blk, "chan send") || strings.Contains(blk, "select") || strings.Contains(blk, "sync.")) {
			for _, ln := range strings.Split(blk, "\n") {
				if strings.Contains(ln, "orda-io/orda/server/") && !strings.HasPrefix(strings.TrimSpace(ln), "/") {
					fn := strings.TrimSpace(ln)
					if i := strings.Index(fn, "("); i > 0 {
						fn = fn[:strings.LastIndex(fn, "(")]
					}
					if i := strings.LastIndex(fn, "/"); i >= 0 {
						fn = fn[i+1:]
					}
					site = fn
					break
				}
			}
			break
		}
	}
	oracle := r.prop + ".every-call-returns"
	r.fail("answered", oracle, "hang/"+site, "request(s) %v did not return within 40 simulated seconds although nothing was pending (no database command, no message): the handler is blocked at %s", who, site)
	r.fail("nocrash", oracle, "hang/"+site, "request(s) %v did not return within 40 simulated seconds", who)
}

// settle drives every spontaneous activity (realtime syncs, notifications, late responses that are due).
func (r *run) settle(g *kernel.Rng) {
	r.pump(&focus{all: true}, g, nil, false, "")
}

func statusCode(err error) codes.Code {
	if err == nil {
		return codes.OK
	}
	st, _ := status.FromError(err)
	return st.Code()
}

var _ = model.PushPullBitNormal

// deliverNotification hands one notification to its subscriber and checks that a client does not
// react to a notification it caused itself (C18).
func (r *run) deliverNotification(d *mqttDelivery) {
	w := r.w
	a := r.actorByName(d.to.name)
	var n notif
	own := false
	if a != nil && json.Unmarshal(d.payload, &n) == nil && n.CUID == a.cuid {
		own = true
	}
	before := 0
	if own {
		// Whatever the client is in the middle of (its own push may not even be answered yet): a
		// notification it caused itself must not make it send anything. Everything is quiescent at this
		// point, so a request that appears right after the delivery is caused by the delivery.
		for _, c := range w.tr.calls {
			if c.client == a.name {
				before++
			}
		}
	}
	w.br.deliver(d, false)
	if own {
		synctest.Wait()
		after := 0
		for _, c := range w.tr.calls {
			if c.client == a.name {
				after++
			}
		}
		r.probe("own-notification-delivered")
		if after != before {
			r.fail("notify", "C18.own-notification-ignored", "caused-a-request", "%s received the notification %s caused by its own push and reacted by sending a request to the server", a.name, string(d.payload))
		}
	}
}
