package engb

import (
	"fmt"
	"strings"
	"testing/synctest"

	"github.com/orda-io/orda/client/pkg/model"
	"github.com/orda-io/orda/server/schema"

	"verif/sim/kernel"
)

// A read-only observer. The client library has no call that marks a subscription read-only, but the
// protocol has the bit and the server keeps such subscribers apart (roClients): the simulator plays
// one itself. It subscribes to the keys of the first collection with the read-only bit and from then on
// pulls with it, always at the same moment as the Sync calls of an exchange event, its database
// commands interleaved with theirs by the event's seeded choice. What it is handed is judged at the
// end of the run against the stored log: every pull from position p that answers with position q
// carries exactly the operations stored at p+1..q.

type reader struct {
	name       string
	cuid       string
	coll       string
	registered bool
	keys       map[string]*readerKey
}

type readerKey struct {
	duid       string
	subscribed bool
	sseq       uint64
	pulls      []readerPull
}

type readerPull struct {
	step          int
	before, after uint64
	ops           []string // "cuid#seq" of what was handed out
}

type readerCall struct {
	c    *call
	done chan callResult
	req  *model.PushPullMessage
}

func (r *run) theReader() *reader {
	if r.rd == nil {
		g := kernel.NewRng(kernel.Mix64(r.w.seed, 0x7ead))
		r.rd = &reader{name: "observer", cuid: g.UID(), coll: r.w.actors[0].collection, keys: map[string]*readerKey{}}
	}
	return r.rd
}

// readerJoin issues the observer's request for this exchange event and puts it into the event's focus.
func (r *run) readerJoin(f *focus, e Ev) *readerCall {
	w := r.w
	rd := r.theReader()
	if !rd.registered {
		res := r.sendAs(rd.name, "ProcessClient", &model.ClientMessage{Header: model.NewMessageHeader(model.RequestType_CLIENTS), Collection: rd.coll, Cuid: rd.cuid, ClientAlias: rd.name, SyncType: model.SyncType_MANUALLY})
		if res.err != nil {
			return nil
		}
		rd.registered = true
	}
	g := kernel.NewRng(e.S + 0x0b5e)
	colNum := r.collNum(rd.coll)
	req := &model.PushPullMessage{Header: model.NewMessageHeader(model.RequestType_PUSHPULLS), Collection: rd.coll, Cuid: rd.cuid}
	dts, _ := r.readStore()
	for _, duid := range sortedKeys(dts) {
		di := dts[duid]
		if di.doc.CollectionNum != colNum || !di.doc.Visible {
			continue
		}
		t, ok := model.TypeOfDatatype_value[di.doc.Type]
		if !ok {
			continue
		}
		k := rd.keys[di.doc.Key]
		if k != nil && k.duid != duid {
			k = nil // the key holds another datatype now (the collection was reset): start over
		}
		if k == nil {
			k = &readerKey{duid: duid}
			rd.keys[di.doc.Key] = k
		}
		opt := model.PushPullBitReadOnly
		p := &model.PushPullPack{DUID: duid, Key: di.doc.Key, Type: model.TypeOfDatatype(t), CheckPoint: &model.CheckPoint{Sseq: k.sseq, Cseq: 0}}
		if !k.subscribed {
			opt = model.PushPullBitReadOnly | model.PushPullBitSubscribe
			p.DUID = g.UID() // a subscriber does not know the id yet
		}
		p.Option = uint32(opt)
		req.PushPullPacks = append(req.PushPullPacks, p)
	}
	if len(req.PushPullPacks) == 0 {
		return nil
	}
	if g.Chance(1, 6) {
		// an application with many datatypes: one message with 17-24 more packs (subscriptions to keys
		// nobody has created: each is refused on its own, the message is answered as a whole)
		for i, n := 0, g.Range(17, 24); i < n; i++ {
			req.PushPullPacks = append(req.PushPullPacks, &model.PushPullPack{DUID: g.UID(), Key: fmt.Sprintf("nokey-%d", i), Type: model.TypeOfDatatype_COUNTER,
				Option: uint32(model.PushPullBitReadOnly | model.PushPullBitSubscribe), CheckPoint: &model.CheckPoint{}})
		}
		r.probe("observer-request-with-many-packs")
	}
	ncalls := len(w.tr.calls)
	ep := &endpoint{t: w.tr, name: rd.name}
	rc := &readerCall{done: make(chan callResult, 1), req: req}
	go func() {
		m, err := ep.t.issue(ep.name, "ProcessPushPull", req)
		rc.done <- callResult{msg: m, err: err}
	}()
	synctest.Wait()
	w.tr.mu.Lock()
	for _, c := range w.tr.calls[ncalls:] {
		if c.client == rd.name {
			rc.c = c
		}
	}
	w.tr.mu.Unlock()
	if rc.c == nil {
		return nil
	}
	f.calls[rc.c] = true
	f.owners[callOwner(rc.c)] = true
	r.evOwners[r.step-1] = append(r.evOwners[r.step-1], callOwner(rc.c))
	r.probe("observer-request")
	r.logf("  the read-only observer sends request %s for %d datatypes", callOwner(rc.c), len(req.PushPullPacks))
	return rc
}

// readerDone takes the observer's answer.
func (r *run) readerDone(rc *readerCall) {
	if rc == nil {
		return
	}
	if rc.c.state == "answered" {
		r.deliverResp(rc.c, false)
	}
	synctest.Wait()
	var res callResult
	select {
	case res = <-rc.done:
	default:
		r.fail("answered", r.prop+".answered", "no-answer/observer", "the push-pull of the read-only observer got no answer")
		return
	}
	if res.err != nil {
		r.probe("observer-rpc-error")
		return
	}
	resp, _ := res.msg.(*model.PushPullMessage)
	if resp == nil {
		return
	}
	rd := r.rd
	for _, p := range resp.PushPullPacks {
		k := rd.keys[p.Key]
		if k == nil {
			continue
		}
		if p.GetPushPullPackOption().HasErrorBit() {
			r.probe("observer-refused")
			continue
		}
		if p.CheckPoint == nil {
			continue
		}
		pull := readerPull{step: r.step, before: k.sseq, after: p.CheckPoint.Sseq}
		for _, op := range p.Operations {
			pull.ops = append(pull.ops, opKey(op))
		}
		if !k.subscribed {
			k.subscribed = true
			if p.DUID != "" {
				k.duid = p.DUID
			}
			r.probe("observer-subscribed")
		}
		k.pulls = append(k.pulls, pull)
		r.probe("observer-pull")
		if pull.after < pull.before {
			r.fail("serial", "C12.observer-sees-the-log", "position-moves-back", "the read-only observer pulled %s from position %d and was answered with position %d", p.Key, pull.before, pull.after)
			r.fail("log", "C06.handed-out-equals-stored", "position-moves-back", "the read-only observer pulled %s from position %d and was answered with position %d", p.Key, pull.before, pull.after)
			continue
		}
		k.sseq = pull.after
	}
}

// checkReader: at the end of the run, what the observer was handed is what the log holds.
func (m *monitors) checkReader(r *run, dts map[string]*dtInfo) {
	rd := r.rd
	if rd == nil {
		return
	}
	for _, key := range sortedKeys(rd.keys) {
		k := rd.keys[key]
		di := dts[k.duid]
		if di == nil {
			continue // the collection was reset
		}
		at := map[uint64]string{}
		for _, so := range di.ops {
			at[so.doc.Sseq] = opKey(so.op)
		}
		for _, pl := range k.pulls {
			var want []string
			for s := pl.before + 1; s <= pl.after; s++ {
				if v, ok := at[s]; ok {
					want = append(want, v)
				} else {
					want = append(want, fmt.Sprintf("<nothing stored at %d>", s))
				}
			}
			r.probe("observer-pull-judged")
			if strings.Join(want, ",") != strings.Join(pl.ops, ",") {
				msg := fmt.Sprintf("step %d: the read-only observer pulled %s from position %d and was answered with position %d and operations %v; the log holds %v at %d..%d (recorded end %d)", pl.step, key, pl.before, pl.after, pl.ops, want, pl.before+1, pl.after, di.doc.Sseq.End)
				r.fail("serial", "C12.observer-sees-the-log", "handed-out-differs", "%s", msg)
				r.fail("log", "C06.handed-out-equals-stored", "handed-out-differs", "%s", msg)
				r.fail("refuse", "C16.refused-changes-nothing", "handed-out-differs", "%s", msg)
			}
		}
	}
}

var _ = schema.CollectionNameDatatypes

// ---------------------------------------------------------------- a registration at the same moment (C12)

// joinCall: a ProcessClient request issued together with the Sync calls of an exchange event: a fresh
// client registering in the same collection, or the registration of one of the syncing clients sent
// again (a restarted application). Demanded: it is answered, and there is one client document per id.
func (r *run) joinCall(f *focus, e Ev, started []*actor) *readerCall {
	w := r.w
	g := kernel.NewRng(e.S + 0x101)
	a := started[g.Intn(len(started))]
	name := fmt.Sprintf("joiner%d", r.step)
	msg := &model.ClientMessage{Header: model.NewMessageHeader(model.RequestType_CLIENTS), Collection: a.collection, Cuid: g.UID(), ClientAlias: name, SyncType: model.SyncType_MANUALLY}
	if e.Join == 2 && a.cuid != "" {
		st := model.SyncType_MANUALLY
		if a.realtime {
			st = model.SyncType_REALTIME
		}
		msg.Cuid, msg.ClientAlias, msg.SyncType = a.cuid, a.name, st
	}
	ncalls := len(w.tr.calls)
	ep := &endpoint{t: w.tr, name: name}
	rc := &readerCall{done: make(chan callResult, 1)}
	go func() {
		m, err := ep.t.issue(ep.name, "ProcessClient", msg)
		rc.done <- callResult{msg: m, err: err}
	}()
	synctest.Wait()
	w.tr.mu.Lock()
	for _, c := range w.tr.calls[ncalls:] {
		if c.client == name {
			rc.c = c
		}
	}
	w.tr.mu.Unlock()
	if rc.c == nil {
		return nil
	}
	f.calls[rc.c] = true
	f.owners[callOwner(rc.c)] = true
	r.evOwners[r.step-1] = append(r.evOwners[r.step-1], callOwner(rc.c))
	r.probe("registration-during-syncs")
	r.logf("  %s sends ProcessClient(%s) at the same moment (request %s)", name, msg.Cuid, callOwner(rc.c))
	return rc
}

func (r *run) joinDone(rc *readerCall) {
	if rc == nil {
		return
	}
	if rc.c.state == "answered" {
		r.deliverResp(rc.c, false)
	}
	synctest.Wait()
	select {
	case res := <-rc.done:
		if res.err != nil {
			r.probe("registration-during-syncs-refused")
		}
	default:
		r.fail("serial", "C12.every-call-returns", "no-answer/process-client", "a ProcessClient call sent together with push-pull requests got no answer")
	}
	seen := map[string]bool{}
	for _, d := range r.docsOf(schema.CollectionNameClients) {
		id, _ := get(d, "_id")
		k := fmt.Sprint(id)
		if seen[k] {
			r.fail("serial", "C12.one-client-per-id", "two-documents", "client id %s has two client documents", k)
		}
		seen[k] = true
	}
}
