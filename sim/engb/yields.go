package engb

import (
	"fmt"
	"sort"
	"sync"

	"github.com/orda-io/orda/client/pkg/simhook"

	"verif/sim/simmongo"
)

// Scheduling points inside the server (C12). The check builds the server from a scratch copy in which
// cmd/instr has put simhook.Yield(...) in front of every statement that touches a synchronisation
// object (lock registry look-up and registration, lock acquisition and release, ...). With
// Config.Yields such a point is a seam like a database command: the handler goroutine waits there
// until the simulator lets it go on, so that two handlers can be interleaved between a look-up and the
// registration that follows it. Goroutines that do not work for a request pass through.

type heldYield struct {
	owner   string
	site    string
	n       int
	release chan struct{}
}

func (h *heldYield) key() string { return fmt.Sprintf("%s|%s|%06d", h.owner, h.site, h.n) }

type yieldSeam struct {
	mu     sync.Mutex
	on     bool
	held   []*heldYield
	count  map[string]int // per owner
	spins  map[string]int // per owner: consecutive failed lock attempts
	stuck  string
	passed int
}

var seam = &yieldSeam{}

// installSeamHooks is called at the start of every engine-B run (engine C installs its own).
func installSeamHooks() {
	simhook.YieldFunc = func(site string) { seam.yield(site) }
	simhook.BeforeTryFunc = func(try func() bool) { seam.beforeTry(try) }
	simhook.BeforeLockFunc = nil
}

func (y *yieldSeam) reset(on bool) {
	y.mu.Lock()
	y.on, y.held, y.count, y.spins, y.stuck, y.passed = on, nil, map[string]int{}, map[string]int{}, "", 0
	y.mu.Unlock()
}

func (y *yieldSeam) yield(site string) {
	y.mu.Lock()
	if !y.on {
		y.mu.Unlock()
		return
	}
	y.mu.Unlock()
	owner := simmongo.CurrentOwner()
	if owner == "" {
		return
	}
	y.mu.Lock()
	if !y.on {
		y.mu.Unlock()
		return
	}
	y.count[owner]++
	h := &heldYield{owner: owner, site: site, n: y.count[owner], release: make(chan struct{})}
	y.held = append(y.held, h)
	y.mu.Unlock()
	<-h.release
}

// beforeTry: wait (at the seam) until the lock can be taken, so that the Lock() that follows does not
// block in a real mutex while its holder waits at a seam (a goroutine blocked in sync.Mutex is not
// "durably blocked" for testing/synctest and the simulator would never see quiescence).
func (y *yieldSeam) beforeTry(try func() bool) {
	y.mu.Lock()
	on := y.on
	y.mu.Unlock()
	if !on {
		return
	}
	owner := simmongo.CurrentOwner()
	if owner == "" {
		return
	}
	for i := 0; i < 400; i++ {
		if try() {
			y.mu.Lock()
			y.spins[owner] = 0
			y.mu.Unlock()
			return
		}
		y.mu.Lock()
		y.spins[owner]++
		y.mu.Unlock()
		y.yield("lock.wait")
		y.mu.Lock()
		on = y.on
		y.mu.Unlock()
		if !on {
			return
		}
	}
	y.mu.Lock()
	y.stuck = owner
	y.mu.Unlock()
}

func (y *yieldSeam) list() []*heldYield {
	y.mu.Lock()
	defer y.mu.Unlock()
	out := append([]*heldYield{}, y.held...)
	sort.SliceStable(out, func(i, j int) bool { return out[i].key() < out[j].key() })
	return out
}

func (y *yieldSeam) let(h *heldYield) {
	y.mu.Lock()
	for i, x := range y.held {
		if x == h {
			y.held = append(y.held[:i], y.held[i+1:]...)
			break
		}
	}
	y.passed++
	y.mu.Unlock()
	close(h.release)
}

// off lets everything go and makes later points pass through (end of the run).
func (y *yieldSeam) off() {
	y.mu.Lock()
	y.on = false
	held := y.held
	y.held = nil
	y.mu.Unlock()
	for _, h := range held {
		close(h.release)
	}
}
