package engb

import (
	gocontext "context"
	"encoding/json"
	"fmt"
	"sort"

	"github.com/orda-io/orda/client/pkg/model"

	"verif/sim/kernel"
)

// canonBody renders an operation body canonically; the node list of a document snapshot is a set.
func canonBody(t model.TypeOfOperation, body []byte) string {
	if !json.Valid(body) {
		return "raw:" + string(body)
	}
	if t == model.TypeOfOperation_DOC_SNAPSHOT {
		var x map[string]interface{}
		if json.Unmarshal(body, &x) == nil {
			if nm, ok := x["nm"].([]interface{}); ok {
				ss := make([]string, len(nm))
				for i, n := range nm {
					ss[i] = kernel.Canon(n)
				}
				sort.Strings(ss)
				return kernel.Canon(ss)
			}
		}
	}
	return kernel.CanonBytes(body)
}

// checkEcho: C14 — the server's encoding-echo service returns an operation equivalent to its input,
// for every operation clients have produced in this run.
func (m *monitors) checkEcho(r *run) {
	for _, c := range r.w.tr.calls {
		if c.method != "ProcessPushPull" || m.echoed[c] || !m.honest[c.client] {
			continue
		}
		m.echoed[c] = true
		req, _ := c.req.(*model.PushPullMessage)
		if req == nil {
			continue
		}
		for _, p := range req.PushPullPacks {
			for _, op := range p.Operations {
				in := &model.EncodingMessage{Type: p.Type, Op: cloneOp(op)}
				var out *model.EncodingMessage
				var err error
				pmsg, pfp := safely(func() { out, err = r.w.inst.svc.TestEncodingOperation(gocontext.Background(), in) })
				r.probe("echo-ops")
				if pmsg != "" {
					r.fail("wire", "C14.no-panic", "echo/"+pfp, "the encoding-echo service panicked on %s %s: %s", op.OpType, opKey(op), pmsg)
					continue
				}
				if err != nil || out == nil || out.Op == nil {
					r.fail("wire", "C14.echo", "error/"+op.OpType.String(), "the encoding-echo service failed on %s %s: %v", op.OpType, opKey(op), err)
					continue
				}
				a := fmt.Sprintf("%s|%s|%d|%d|%d|%s", op.OpType, op.ID.GetCUID(), op.ID.GetSeq(), op.ID.GetLamport(), op.ID.GetEra(), canonBody(op.OpType, op.Body))
				b := fmt.Sprintf("%s|%s|%d|%d|%d|%s", out.Op.OpType, out.Op.ID.GetCUID(), out.Op.ID.GetSeq(), out.Op.ID.GetLamport(), out.Op.ID.GetEra(), canonBody(out.Op.OpType, out.Op.Body))
				if a != b {
					r.fail("wire", "C14.echo", "differs/"+op.OpType.String(), "the encoding-echo service returned a different operation:\n  in : %s\n  out: %s", clip(a, 500), clip(b, 500))
				}
			}
		}
	}
}
