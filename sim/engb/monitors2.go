package engb

import (
	"encoding/json"
	"fmt"
	"strings"

	"github.com/orda-io/orda/client/pkg/iface"
	"github.com/orda-io/orda/client/pkg/model"
	"github.com/orda-io/orda/client/pkg/orda"
	"github.com/orda-io/orda/server/schema"
	"go.mongodb.org/mongo-driver/bson"

	"verif/sim/kernel"
)

// checkSnapshots: C11 — every stored snapshot(v) equals replay(log[1..v]); the user document is the
// JSON view of replay(log[1.._orda_ver_]); versions never decrease.
func (m *monitors) checkSnapshots(r *run, dts map[string]*dtInfo) {
	for _, d := range r.docsOf(schema.CollectionNameSnapshot) {
		var sd schema.SnapshotDoc
		if err := decodeInto(d, &sd); err != nil {
			r.fail("snap", "C11.snapshot-equals-prefix", "decode", "snapshot document does not decode: %v", err)
			continue
		}
		di := dts[sd.DUID]
		if di == nil || uint64(len(di.ops)) < sd.Sseq {
			if len(r.w.tr.byState("running")) == 0 {
				r.fail("snap", "C11.snapshot-equals-prefix", "beyond-log", "snapshot %s has version %d but the stored log is shorter", sd.ID, sd.Sseq)
			}
			continue
		}
		// import the stored snapshot into a fresh instance, as the server does
		c := orda.NewClient(orda.NewLocalClientConfig("x"), "snapcheck")
		var view string
		var errS string
		msg, fp := safely(func() {
			dt := c.CreateDatatype(di.doc.Key, kindOfType(di.doc.Type), nil).(iface.Datatype)
			dt.SetDUID(sd.DUID)
			if e := dt.SetMetaAndSnapshot([]byte(sd.Meta), sd.Snapshot); e != nil {
				errS = e.Error()
				return
			}
			view = viewOfDT(dt)
		})
		if msg != "" {
			r.fail("snap", "C11.snapshot-equals-prefix", "import-panic/"+fp, "stored snapshot %s cannot be imported: %s", sd.ID, msg)
			continue
		}
		if errS != "" {
			r.fail("snap", "C11.snapshot-equals-prefix", "import-error", "stored snapshot %s cannot be imported: %s", sd.ID, errS)
			continue
		}
		dt, e2 := r.replay(di, sd.Sseq)
		if e2 != "" {
			continue
		}
		want := viewOfDT(dt)
		r.probe("snapshot-docs-checked")
		if view != want {
			r.fail("snap", "C11.snapshot-equals-prefix", di.doc.Type+"/differs", "stored snapshot %s (version %d) differs from a replay of operations 1..%d:\n  snapshot: %s\n  replay  : %s", sd.ID, sd.Sseq, sd.Sseq, clip(view, 500), clip(want, 500))
		}
	}
	// user-visible documents
	colls := map[int32]string{}
	for _, d := range r.docsOf(schema.CollectionNameCollections) {
		var cd schema.CollectionDoc
		if decodeInto(d, &cd) == nil {
			colls[cd.Num] = cd.Name
		}
	}
	for _, duid := range sortedKeys(dts) {
		di := dts[duid]
		cn := colls[di.doc.CollectionNum]
		if cn == "" {
			continue
		}
		for _, d := range r.docsOf(cn) {
			id, _ := get(d, "_id")
			if id != di.doc.Key {
				continue
			}
			verV, ok := get(d, "_orda_ver_")
			if !ok {
				r.fail("snap", "C11.userdoc-equals-prefix", "no-version", "user document %s/%s has no version field", cn, di.doc.Key)
				continue
			}
			ver := uint64(toInt(verV))
			k := cn + "/" + di.doc.Key + "/" + duid
			if ver < m.verSeen[k] {
				r.fail("snap", "C11.version-monotone", "went-back", "user document %s/%s went from version %d back to %d", cn, di.doc.Key, m.verSeen[k], ver)
			}
			m.verSeen[k] = ver
			if uint64(len(di.ops)) < ver {
				continue
			}
			dt, e2 := r.replay(di, ver)
			if e2 != "" {
				continue
			}
			want := bsonView(dt.ToJSON())
			var f bson.D
			for _, e := range d {
				if e.Key != "_id" && e.Key != "_orda_ver_" {
					f = append(f, e)
				}
			}
			got := canonBSON(f)
			r.probe("userdoc-checked")
			if got != want {
				r.fail("snap", "C11.userdoc-equals-prefix", di.doc.Type+"/differs", "user document %s/%s records version %d but is not the JSON view of operations 1..%d:\n  document: %s\n  replay  : %s", cn, di.doc.Key, ver, ver, clip(got, 500), clip(want, 500))
			}
		}
	}
}

func get(d bson.D, k string) (interface{}, bool) {
	for _, e := range d {
		if e.Key == k {
			return e.Value, true
		}
	}
	return nil, false
}

func toInt(v interface{}) int64 {
	switch x := v.(type) {
	case int32:
		return int64(x)
	case int64:
		return x
	case float64:
		return int64(x)
	}
	return 0
}

// bsonView renders a value the way it reads back after a BSON round trip (what the server stores).
func bsonView(v interface{}) string {
	b, err := bson.Marshal(v)
	if err != nil {
		// top-level non-document (cannot happen: ToJSON of every datatype is a struct or map)
		return "!bson:" + err.Error()
	}
	var d bson.D
	_ = bson.Unmarshal(b, &d)
	return canonBSON(d)
}

func canonBSON(d bson.D) string {
	if d == nil {
		d = bson.D{}
	}
	b, err := bson.MarshalExtJSON(d, false, false)
	if err != nil {
		return "!" + err.Error()
	}
	return kernel.CanonBytes(b)
}

// checkCatchUp: after heal, the newest snapshot reaches the end of the log for every datatype that had a committing push.
func (m *monitors) checkCatchUp(r *run, dts map[string]*dtInfo) {
	newest := map[string]uint64{}
	for _, d := range r.docsOf(schema.CollectionNameSnapshot) {
		var sd schema.SnapshotDoc
		if decodeInto(d, &sd) == nil && sd.Sseq > newest[sd.DUID] {
			newest[sd.DUID] = sd.Sseq
		}
	}
	for _, duid := range sortedKeys(dts) {
		di := dts[duid]
		if len(di.ops) == 0 {
			continue
		}
		if newest[duid] != uint64(len(di.ops)) {
			r.fail("snapcatch", "C11.snapshot-catches-up", "behind", "after faults stopped and all clients synced, the newest snapshot of %s has version %d but the log ends at %d", di.doc.Key, newest[duid], len(di.ops))
		}
	}
}

// checkWire: C14 — what peers pulled equals what was sent (checked on responses), and stored == sent (checkLog).
func (m *monitors) checkWire(r *run, dts map[string]*dtInfo) {
	for _, c := range r.w.tr.calls {
		if c.method != "ProcessPushPull" || c.resp == nil || c.resp.msg == nil || c.state == "checked" {
			continue
		}
		resp, ok := c.resp.msg.(*model.PushPullMessage)
		if !ok {
			continue
		}
		for _, p := range resp.PushPullPacks {
			for _, op := range p.Operations {
				if op.ID == nil || op.OpType == model.TypeOfOperation_ERROR {
					continue
				}
				if sent, ok := m.pushed[p.DUID][opKey(op)]; ok {
					r.probe("wire-ops-compared")
					if got := canonOp(op); got != sent {
						r.fail("wire", "C14.peer", "pulled-differs", "operation %s of %s as pulled by %s differs from what its issuer sent:\n  sent  : %s\n  pulled: %s", opKey(op), p.Key, c.client, sent, got)
					}
				}
			}
		}
	}
}

type notif struct {
	CUID string
	DUID string
	Sseq uint64 `json:"sseq"`
}

// checkPublishes: C18 part 1 — one publish per committing push with (pusher, datatype, new end of log); none otherwise.
func (m *monitors) checkPublishes(r *run, dts map[string]*dtInfo) {
	w := r.w
	if r.prop != "C18" {
		// outside C18's own plans the database can fail inside a commit: operations are stored, the push
		// is refused and (rightly) not announced. Judged only in runs without such a fault.
		for k, v := range r.res.Faults {
			if (strings.HasPrefix(k, "mongo-") || k == "server-crash") && v > 0 && k != "mongo-slow" && k != "mongo-stall" {
				return
			}
		}
	}
	// which calls stored operations, and which (duid → max sseq)
	colls := map[int32]string{}
	for _, d := range r.docsOf(schema.CollectionNameCollections) {
		var cd schema.CollectionDoc
		if decodeInto(d, &cd) == nil {
			colls[cd.Num] = cd.Name
		}
	}
	type exp struct {
		topic, cuid, duid string
		sseq              uint64
		owner             string
	}
	var expect []exp
	for _, c := range w.tr.calls {
		if c.method != "ProcessPushPull" || (c.state != "finished" && c.state != "answered") || c.inst == nil || c.inst.dead {
			continue
		}
		if r.lagging[callOwner(c)] || m.pubChecked[c] {
			continue
		}
		if r.hasPending(callOwner(c)) {
			continue // its background work (notify, snapshot) has not run yet
		}
		m.pubChecked[c] = true
		snap := m.callSnap[c]
		req, _ := c.req.(*model.PushPullMessage)
		if req == nil || snap == nil {
			continue
		}
		for _, p := range req.PushPullPacks {
			if len(p.Operations) == 0 {
				continue
			}
			// the datatype this pack ended up in
			for _, duid := range sortedKeys(dts) {
				di := dts[duid]
				if di.doc.Key != p.Key || colls[di.doc.CollectionNum] != req.Collection {
					continue
				}
				mine := map[string]bool{}
				content := map[string]string{}
				for _, op := range p.Operations {
					mine[opKey(op)] = true
					content[opKey(op)] = canonOp(op)
				}
				var maxS uint64
				for _, so := range di.ops {
					if by, known := r.insertedBy[so.doc.ID]; known && by != callOwner(c) {
						continue // another request of the same client (sent later, served earlier) stored it
					}
					if mine[opKey(so.op)] && content[opKey(so.op)] == canonOp(so.op) && !snap[so.doc.ID] && so.op.ID.GetCUID() == req.Cuid {
						if so.doc.Sseq > maxS {
							maxS = so.doc.Sseq
						}
					}
				}
				if maxS > 0 && !m.storedByEarlier(r, c, di, mine) {
					expect = append(expect, exp{topic: req.Collection + "/" + p.Key, cuid: req.Cuid, duid: duid, sseq: maxS, owner: callOwner(c)})
				}
			}
		}
	}
	// a REST patch is a push like any other (made by a client the server creates for the request)
	for _, c := range w.tr.calls {
		if c.method != "PatchDocument" || c.state != "finished" || c.inst == nil || c.inst.dead || c.resp == nil || c.resp.err != nil {
			continue
		}
		if r.lagging[callOwner(c)] || m.pubChecked[c] || r.hasPending(callOwner(c)) {
			continue
		}
		m.pubChecked[c] = true
		for _, duid := range sortedKeys(dts) {
			di := dts[duid]
			var maxS uint64
			cuid := ""
			for _, so := range di.ops {
				if r.insertedBy[so.doc.ID] == callOwner(c) && so.doc.Sseq > maxS {
					maxS, cuid = so.doc.Sseq, so.op.ID.GetCUID()
				}
			}
			if maxS > 0 {
				r.probe("rest-patch-publish-expected")
				_ = cuid // the announcement of a REST patch names the patch API as the pusher, not the per-request client
				expect = append(expect, exp{topic: colls[di.doc.CollectionNum] + "/" + di.doc.Key, cuid: "", duid: duid, sseq: maxS, owner: callOwner(c)})
			}
		}
	}
	used := make([]bool, len(w.br.pubs))
	for _, e := range expect {
		found := 0
		for i, p := range w.br.pubs {
			var n notif
			if json.Unmarshal(p.Payload, &n) != nil {
				continue
			}
			if p.Topic == e.topic && (n.CUID == e.cuid || e.cuid == "") && n.DUID == e.duid && n.Sseq == e.sseq {
				found++
				used[i] = true
			}
		}
		r.probe("publish-checked")
		if found != 1 {
			r.fail("notify", "C18.one-publish-per-commit", fmt.Sprintf("found-%d", min(found, 2)), "the push %s stored operations of %s up to %d, but %d notifications {CUID:%s DUID:%s sseq:%d} were published on %s (all publishes: %s)", e.owner, e.topic, e.sseq, found, e.cuid, e.duid, e.sseq, e.topic, pubsText(w.br.pubs))
		}
	}
	if len(w.tr.byState("running")) == 0 && len(r.lagging) == 0 {
		for i, p := range w.br.pubs {
			if !used[i] && i >= m.seenPub {
				if w.br.deadPub[p.From] {
					continue
				}
				r.fail("notify", "C18.no-publish-without-commit", "extra-publish", "notification %s on %s does not belong to any push that stored operations", string(p.Payload), p.Topic)
			}
		}
		m.seenPub = len(w.br.pubs)
	}
}

// storedByEarlier: the same operations were already stored by an earlier copy of this request racing with it.
func (m *monitors) storedByEarlier(r *run, c *call, di *dtInfo, mine map[string]bool) bool {
	return false
}

func pubsText(ps []mqttPublish) string {
	s := ""
	for _, p := range ps {
		s += p.Topic + ":" + string(p.Payload) + " "
	}
	return clip(s, 600)
}
