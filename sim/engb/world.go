package engb

import (
	gocontext "context"
	"fmt"
	"io"
	"os"
	"sort"
	"sync"
	"testing"
	"testing/synctest"
	"time"

	"github.com/orda-io/orda/client/pkg/context"
	"github.com/orda-io/orda/client/pkg/errors"
	"github.com/orda-io/orda/client/pkg/iface"
	ordalog "github.com/orda-io/orda/client/pkg/log"
	"github.com/orda-io/orda/client/pkg/model"
	"github.com/orda-io/orda/client/pkg/orda"
	"github.com/orda-io/orda/client/pkg/simhook"
	"github.com/orda-io/orda/server/managers"
	"github.com/orda-io/orda/server/mongodb"
	"github.com/orda-io/orda/server/notification"
	"github.com/orda-io/orda/server/redis"
	"github.com/orda-io/orda/server/service"
	"github.com/orda-io/orda/server/utils"
	"github.com/sirupsen/logrus"
	"go.mongodb.org/mongo-driver/mongo/options"

	"verif/sim/kernel"
	"verif/sim/simmongo"
)

const dbName = "orda_sim"

type serverInst struct {
	id      int
	mgr     *managers.Managers
	svc     *service.OrdaService
	dead    bool
	stopped bool
	mq      *mqttClient
}

type stateChange struct{ Old, New model.StateOfDatatype }

// dtState is one datatype object held by an actor, with what its handlers reported.
type dtState struct {
	key             string
	kind            string
	mode            string
	dt              iface.Datatype
	pub             orda.Datatype
	mu              sync.Mutex
	chg             []stateChange
	errs            []string
	rops            []string // ids of remote operations reported, in order
	nLocal          int
	nLocalSinceOpen int
	// handlers the application did not register (what they would have reported is not judged)
	noState, noRemote, noErr bool
}

type actor struct {
	idx        int
	name       string
	collection string
	realtime   bool
	client     orda.Client
	cuid       string
	ep         *endpoint
	mq         *mqttClient
	dts        []*dtState
	mu         sync.Mutex
	syncing    int
	syncErrs   []string
	connected  bool
	gone       bool
	wire       *wireState
	synced     bool
}

type world struct {
	t        *testing.T
	seed     uint64
	uid      *kernel.Rng
	lat      *kernel.Rng
	store    *simmongo.Store
	mongo    *simmongo.Server
	br       *broker
	tr       *transport
	inst     *serverInst
	instSeq  int
	oldInsts []*serverInst
	actors   []*actor
	cur      *actor // actor whose Connect is in progress (endpoint/mqtt wiring)
	start    time.Time
	crashed  []string // panics recovered from SUT goroutines started by the harness
	crashMu  sync.Mutex
}

// logToNowhere: orda formats its log lines (reads its contexts' tag maps, clones entries) but writes
// them nowhere. Used for the race-detector runs of C12: with logging silenced below the level check,
// the accesses a log statement makes never happen and the detector cannot see a handler that logs
// through a context somebody else is still writing.
var logToNowhere bool

func init() {
	lvl := logrus.PanicLevel
	if os.Getenv("VERIF_ORDALOG") != "" {
		lvl = logrus.InfoLevel // debugging aid only: real-time stamps, not part of any replayed state
	}
	simhook.LoggerFunc = func(l *logrus.Logger) {
		if logToNowhere && lvl == logrus.PanicLevel {
			l.SetLevel(logrus.InfoLevel)
			l.SetReportCaller(true) // orda's formatter needs the caller
			l.SetOutput(io.Discard)
			return
		}
		l.SetLevel(lvl)
		l.SetReportCaller(lvl != logrus.PanicLevel)
	}
	// the package-level logger was created before the hook could be set
	ordalog.Logger.Logger.SetLevel(lvl)
	ordalog.Logger.Logger.SetReportCaller(lvl != logrus.PanicLevel)
}

func newWorld(t *testing.T, seed uint64) *world {
	w := &world{t: t, seed: seed, uid: kernel.NewRng(seed).Derive("uids"), lat: kernel.NewRng(seed).Derive("latency"), start: time.Now()}
	simmongo.ResetOwners()
	w.store = simmongo.NewStore(time.Now)
	w.mongo = simmongo.NewServer(w.store)
	w.br = newBroker()
	w.tr = &transport{}
	simhook.UIDFunc = func() (string, bool) { return w.uid.UID(), true }
	simhook.ServiceClientFunc = func(addr string) interface{} {
		if w.cur == nil {
			return nil
		}
		return w.cur.ep
	}
	simhook.MQTTFunc = func(opts interface{}) interface{} {
		if w.cur == nil {
			return nil
		}
		return w.cur.mq
	}
	return w
}

func (w *world) close() {
	simhook.UIDFunc = nil
	simhook.ServiceClientFunc = nil
	simhook.MQTTFunc = nil
	mongodb.SimClientOptions = nil
}

// tick lets simulated time pass (the simulator sleeps; everything else is quiescent).
func (w *world) tick(d time.Duration) {
	if d > 0 {
		time.Sleep(d)
	}
	synctest.Wait()
}

func (w *world) smallLatency() time.Duration {
	return time.Duration(200+w.lat.Intn(3000)) * time.Microsecond
}

// startServer builds a new orda server instance over the durable image.
func (w *world) startServer() error {
	w.instSeq++
	id := w.instSeq
	mongodb.SimClientOptions = func(o *options.ClientOptions) {
		o.SetDialer(&simmongo.Dialer{S: w.mongo, Instance: id})
		o.Auth = nil
		o.SetServerSelectionTimeout(3 * time.Second)
		o.SetConnectTimeout(2 * time.Second)
		o.SetHeartbeatInterval(60 * time.Second)
	}
	utils.ResetLocalLocksForSim()
	ctx := context.NewOrdaContext(gocontext.Background(), "sim")
	wasAuto := w.mongo.Auto
	w.mongo.Auto = true
	defer func() { w.mongo.Auto = wasAuto }()
	inst := &serverInst{id: id, mq: w.br.newClient(fmt.Sprintf("server-%d", id))}
	inst.mq.Connect()
	m := &managers.Managers{}
	var err errors.OrdaError
	done := make(chan struct{})
	go func() {
		defer close(done)
		m.Mongo, err = mongodb.New(ctx, &mongodb.Config{Host: "simmongo:27017", OrdaDB: dbName, User: "u", Password: "p"})
	}()
	<-done
	if err != nil {
		return fmt.Errorf("mongodb.New: %v", err)
	}
	m.Notifier = notification.NewNotifierWithClient(inst.mq)
	m.Redis, _ = redis.New(ctx, nil)
	inst.mgr = m
	inst.svc = service.NewOrdaService(m)
	w.inst = inst
	return nil
}

func (w *world) stopServer() { w.stopInstance(w.inst) }

// stopInstance disconnects an instance's database client (stops the driver's monitor goroutines).
func (w *world) stopInstance(inst *serverInst) {
	if inst == nil || inst.mgr == nil || inst.stopped {
		return
	}
	inst.stopped = true
	ctx := context.NewOrdaContext(gocontext.Background(), "sim")
	done := make(chan struct{})
	go func() {
		defer close(done)
		defer func() { recover() }()
		inst.mgr.Close(ctx)
	}()
	<-done
}

// direct calls a service method synchronously with the stub in auto mode (setup helpers).
func (w *world) direct(method string, req interface{ ProtoReflect() }) {}

func (w *world) createCollection(name string) error {
	wasAuto := w.mongo.Auto
	w.mongo.Auto = true
	defer func() { w.mongo.Auto = wasAuto }()
	var err error
	done := make(chan struct{})
	go func() {
		defer close(done)
		_, err = w.inst.svc.CreateCollection(gocontext.Background(), &model.CollectionMessage{Collection: name})
	}()
	<-done
	return err
}

func (w *world) newActor(collection string, realtime bool) *actor {
	a := &actor{idx: len(w.actors), collection: collection, realtime: realtime}
	a.name = fmt.Sprintf("c%d", a.idx)
	a.ep = &endpoint{t: w.tr, name: a.name}
	a.mq = w.br.newClient(a.name)
	st := model.SyncType_MANUALLY
	if realtime {
		st = model.SyncType_REALTIME
	}
	w.cur = a
	a.client = orda.NewClient(&orda.ClientConfig{ServerAddr: "sim", NotificationAddr: "sim", CollectionName: collection, SyncType: st}, a.name)
	w.cur = nil
	w.actors = append(w.actors, a)
	return a
}

// replaceActor puts a fresh client (new client id, nothing opened) in the place of one whose collection was reset.
func (w *world) replaceActor(old *actor) *actor {
	a := &actor{idx: old.idx, collection: old.collection, realtime: old.realtime}
	a.name = old.name + "r"
	a.ep = &endpoint{t: w.tr, name: a.name}
	a.mq = w.br.newClient(a.name)
	st := model.SyncType_MANUALLY
	if a.realtime {
		st = model.SyncType_REALTIME
	}
	w.cur = a
	a.client = orda.NewClient(&orda.ClientConfig{ServerAddr: "sim", NotificationAddr: "sim", CollectionName: a.collection, SyncType: st}, a.name)
	w.cur = nil
	w.actors[old.idx] = a
	return a
}

func sortedStrings(m map[string]bool) []string {
	var out []string
	for k := range m {
		out = append(out, k)
	}
	sort.Strings(out)
	return out
}
