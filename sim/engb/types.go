package engb

import "encoding/json"

// ActorCfg describes one orda client of a run.
type ActorCfg struct {
	Coll     int  `json:"coll"`
	Realtime bool `json:"rt,omitempty"`
}

// Config is the swarm draw of one engine-B run.
type Config struct {
	Colls     int             `json:"colls"`
	Actors    []ActorCfg      `json:"actors"`
	Oracles   map[string]bool `json:"oracles"`
	Faults    map[string]bool `json:"faults,omitempty"`     // enabled fault kinds (informational; the events carry them)
	HoldPub   bool            `json:"hold_pub,omitempty"`   // a server's publish waits for the simulator (notification goroutines overtake each other)
	Yields    bool            `json:"yields,omitempty"`     // the scheduling points inserted into the server copy are seams (C12)
	PackOrder bool            `json:"pack_order,omitempty"` // the order of the packs in a request and in an answer is a seeded choice (the client fills a request while ranging over a Go map, the server collects answers as they come)
	CollNames []string        `json:"coll_names,omitempty"` // names of the collections (default col1, col2, ...)
	Observe   bool            `json:"observe,omitempty"`    // report plain end-of-run observations (scenario demonstrations)
	Count     bool            `json:"count,omitempty"`      // report the database commands issued per exchange event (base scenarios of the systematic placement)
}

// MongoFault places a fault on the k-th database command issued while serving an exchange.
type MongoFault struct {
	At   int    `json:"at"`
	Kind string `json:"kind"` // errBefore | errAfter | partial | crashBefore | crashAfter | slow
}

// Ev is one plan event of engine B.
type Ev struct {
	T     string        `json:"t"` // open | local | tx | sync | par | advance | restart | drain | patch | rogue | reset | wire
	A     int           `json:"a,omitempty"`
	D     int           `json:"d,omitempty"`
	Op    string        `json:"op,omitempty"`
	Pos   int           `json:"pos,omitempty"`
	N     int           `json:"n,omitempty"`
	K     string        `json:"k,omitempty"`
	V     []interface{} `json:"v,omitempty"`
	Delta int32         `json:"delta,omitempty"`
	Kind  string        `json:"kind,omitempty"` // open: counter|map|list|doc
	Mode  string        `json:"mode,omitempty"` // open: create|subscribe|soc ; wire/rogue: mutation name
	Req   string        `json:"req,omitempty"`  // sync: "", dup, lost
	Resp  string        `json:"resp,omitempty"` // sync: "", drop, late
	MF    []MongoFault  `json:"mf,omitempty"`
	Post  string        `json:"post,omitempty"` // sync: "" (run background work now) | lag (leave it pending)
	Par   []int         `json:"par,omitempty"`
	Join  int           `json:"join,omitempty"` // sync/par: a ProcessClient call at the same moment (1: a fresh client registers; 2: a syncing client's registration is repeated)
	Rd    int           `json:"rd,omitempty"`   // sync/par: the read-only observer pulls at the same moment
	Late  []int         `json:"late,omitempty"` // sync/par: actors whose Sync starts 5.05 s into the first slow database command (just after the lock leases of the waiting requests ran out)
	Dur   int64         `json:"dur,omitempty"`  // advance: milliseconds
	Body  []Ev          `json:"body,omitempty"`
	Fail  bool          `json:"fail,omitempty"`
	Tag   string        `json:"tag,omitempty"`  // tx: the transaction's tag ("" = "t")
	S     uint64        `json:"s,omitempty"`
	Json  string        `json:"json,omitempty"` // patch: target document
}

func (e Ev) raw() json.RawMessage { b, _ := json.Marshal(e); return b }

func decodeEvents(raw []json.RawMessage) ([]Ev, error) {
	out := make([]Ev, len(raw))
	for i, r := range raw {
		if err := json.Unmarshal(r, &out[i]); err != nil {
			return nil, err
		}
	}
	return out, nil
}

func encodeEvents(evs []Ev) []json.RawMessage {
	out := make([]json.RawMessage, len(evs))
	for i, e := range evs {
		out[i] = e.raw()
	}
	return out
}
