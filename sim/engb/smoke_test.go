package engb

import (
	"fmt"
	"os"
	"runtime"
	"strconv"
	"testing"
	"time"
	"verif/sim/kernel"
)

func TestSmokeB(t *testing.T) {
	prop := os.Getenv("P")
	if prop == "" {
		prop = "C05"
	}
	n, _ := strconv.Atoi(os.Getenv("N"))
	if n == 0 {
		n = 20
	}
	base, _ := strconv.ParseUint(os.Getenv("BASE"), 10, 64)
	found := map[string]int{}
	nt := 0
	t0 := time.Now()
	probes := map[string]int{}
	for i := 0; i < n; i++ {
		seed := base + uint64(i)
		if os.Getenv("IDX") != "" {
			// the seed the checks use for run index IDX+i of a batch with VERIF_SEED=1
			idx, _ := strconv.Atoi(os.Getenv("IDX"))
			seed = kernel.Mix64(1, kernel.HashString(prop), uint64(idx+i))
		}
		plan := Gen(prop, "quick", seed)
		res := Execute(t, plan, nil, os.Getenv("VV") != "")
		if os.Getenv("VV") != "" {
			fmt.Printf("=== seed %d\n", seed)
			for _, l := range res.Log {
				fmt.Println("   ", l)
			}
		}
		if os.Getenv("HASH") != "" {
			fmt.Printf("seed %d state-hash %d\n", seed, res.StateHash)
		}
		if res.Nontrivial {
			nt++
		}
		for k, v := range res.Probes {
			probes[k] += v
		}
		for k, v := range res.Faults {
			probes["F:"+k] += v
		}
		if res.Violation != nil {
			k := res.Violation.Key()
			found[k]++
			if found[k] == 1 {
				fmt.Printf("seed %d: %v\n", seed, res.Violation)
				if os.Getenv("V") != "" {
					res2 := Execute(t, plan, nil, true)
					for _, l := range res2.Log {
						fmt.Println("   ", l)
					}
				}
			}
		}
	}
	fmt.Println("goroutines left:", runtime.NumGoroutine())
	if os.Getenv("DUMPG") != "" {
		buf := make([]byte, 1<<20)
		n := runtime.Stack(buf, true)
		fmt.Println(string(buf[:n]))
	}
	fmt.Println("nontrivial", nt, "of", n, "in", time.Since(t0), "probes", probes)
	for k, v := range found {
		fmt.Println(v, k)
	}
}
