package engb

import (
	"encoding/json"
	"fmt"
	"os"
	"testing"

	"verif/sim/kernel"
)

// TestPlanFile executes the plan of a replay/scenario file given in PLAN (debugging aid; with
// VERIF_LIVELOG=1 the event log is printed while the run proceeds, also when the process dies).
func TestPlanFile(t *testing.T) {
	path := os.Getenv("PLAN")
	if path == "" {
		t.Skip("no PLAN")
	}
	b, err := os.ReadFile(path)
	if err != nil {
		t.Fatal(err)
	}
	var f struct {
		Property string            `json:"property"`
		Seed     uint64            `json:"seed"`
		Config   json.RawMessage   `json:"config"`
		Events   []json.RawMessage `json:"events"`
	}
	if err := json.Unmarshal(b, &f); err != nil {
		t.Fatal(err)
	}
	if f.Seed == 0 {
		f.Seed = 1
	}
	res := Execute(t, &kernel.Plan{Engine: "B", Property: f.Property, Seed: f.Seed, Config: f.Config, Events: f.Events}, nil, true)
	for _, l := range res.Log {
		fmt.Println("   ", l)
	}
	fmt.Println("violation:", res.Violation)
}
