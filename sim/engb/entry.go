package engb

import (
	"fmt"
	"strings"

	"github.com/orda-io/orda/client/pkg/model"
	"github.com/orda-io/orda/server/schema"

	"verif/sim/kernel"
)

// entryExpect is what the contract of Create / Subscribe / SubscribeOrCreate demands for one pack.
type entryExpect struct {
	a          *actor
	d          *dtState
	mode       string // create | subscribe | soc
	outcome    string // created | subscribed | refused
	why        string
	partBefore string // digest of the (collection,key) partition before the request
	chgBefore  int
	errBefore  int
}

func (r *run) collNum(name string) int32 {
	for _, d := range r.docsOf(schema.CollectionNameCollections) {
		var cd schema.CollectionDoc
		if decodeInto(d, &cd) == nil && cd.Name == name {
			return cd.Num
		}
	}
	return 0
}

// partition renders everything stored for (collection number, key): datatype document(s) and operation ids.
func (r *run) partition(colNum int32, key string) string {
	var sb strings.Builder
	dts, _ := r.readStore()
	for _, duid := range sortedKeys(dts) {
		di := dts[duid]
		if di.doc.CollectionNum != colNum || di.doc.Key != key {
			continue
		}
		var subs []string
		for _, cu := range sortedKeys(di.doc.RWClients) {
			sc := di.doc.RWClients[cu]
			subs = append(subs, cu+sc.CP.ToString())
		}
		fmt.Fprintf(&sb, "dt %s type=%s end=%d subs=%v ops=", duid, di.doc.Type, di.doc.Sseq.End, subs)
		for _, so := range di.ops {
			fmt.Fprintf(&sb, "%d:%s ", so.doc.Sseq, opKey(so.op))
		}
		sb.WriteString("\n")
	}
	return sb.String()
}

// expectEntries is called when a push-pull request of an honest actor is handed to the server.
func (m *monitors) expectEntries(r *run, c *call, req *model.PushPullMessage) {
	a := r.actorByName(c.client)
	if a == nil {
		return
	}
	colNum := r.collNum(req.Collection)
	dts, _ := r.readStore()
	for _, p := range req.PushPullPacks {
		opt := p.GetPushPullPackOption()
		if !opt.HasCreateBit() && !opt.HasSubscribeBit() {
			continue
		}
		var d *dtState
		for _, x := range a.dts {
			if x.key == p.Key {
				d = x
			}
		}
		if d == nil {
			continue
		}
		mode := "soc"
		if !opt.HasSubscribeBit() {
			mode = "create"
		} else if !opt.HasCreateBit() {
			mode = "subscribe"
		}
		var existing *dtInfo
		for _, duid := range sortedKeys(dts) {
			di := dts[duid]
			if di.doc.CollectionNum == colNum && di.doc.Key == p.Key {
				existing = di
			}
		}
		e := &entryExpect{a: a, d: d, mode: mode, partBefore: r.partition(colNum, p.Key)}
		d.mu.Lock()
		e.chgBefore, e.errBefore = len(d.chg), len(d.errs)
		d.mu.Unlock()
		switch {
		case existing == nil && mode == "subscribe":
			e.outcome, e.why = "refused", "subscribing to a key that does not exist"
		case existing == nil:
			e.outcome = "created"
		case existing.doc.Type != p.Type.String():
			e.outcome, e.why = "refused", fmt.Sprintf("the key holds a %s, the client asks for a %s", existing.doc.Type, p.Type.String())
		case mode == "create":
			if _, mine := existing.doc.RWClients[req.Cuid]; mine && existing.doc.DUID == p.DUID {
				e.outcome = "created" // the creator's own request again
			} else {
				e.outcome, e.why = "refused", "creating a key that already exists"
			}
		default:
			e.outcome = "subscribed"
		}
		m.entries[c] = append(m.entries[c], e)
	}
}

// checkEntries is called after the response of that request has been applied by the client.
func (m *monitors) checkEntries(r *run, c *call, racy bool) {
	es := m.entries[c]
	delete(m.entries, c)
	if c.resp == nil || c.resp.err != nil || c.dropped {
		return // the exchange failed as a whole; nothing to say about the contract (the retry is judged)
	}
	resp, _ := c.resp.msg.(*model.PushPullMessage)
	req, _ := c.req.(*model.PushPullMessage)
	if resp == nil || req == nil {
		return
	}
	colNum := r.collNum(req.Collection)
	for _, e := range es {
		var pack *model.PushPullPack
		for _, p := range resp.PushPullPacks {
			if p.Key == e.d.key {
				pack = p
			}
		}
		if pack == nil {
			continue
		}
		e.d.mu.Lock()
		newChg := e.d.chg[min(e.chgBefore, len(e.d.chg)):]
		newErrs := e.d.errs[min(e.errBefore, len(e.d.errs)):]
		e.d.mu.Unlock()
		subscribedNow := 0
		for _, ch := range newChg {
			if ch.New == model.StateOfDatatype_SUBSCRIBED {
				subscribedNow++
			}
		}
		state := e.d.dt.GetState()
		if racy {
			// Several entry requests were served at the same time: which of them creates, which one
			// subscribes, is refused or is sent away because the key was busy depends on the schedule.
			// What holds on every schedule: the handler reports SUBSCRIBED at most once, a request that
			// did not get in is told so, and (checked elsewhere) one datatype per key, convergence.
			r.probe("entry-raced")
			if state == model.StateOfDatatype_SUBSCRIBED && subscribedNow == 0 && !e.d.noState {
				r.fail("entry", "C13.subscribed-once", "reported-0", "%s: %s became SUBSCRIBED but the state-change handler did not report the transition (errors reported: %v)", e.a.name, e.d.key, newErrs)
			}
			if subscribedNow > 1 {
				r.fail("entry", "C13.subscribed-once", "reported-2", "%s: the state-change handler of %s reported the transition to SUBSCRIBED %d times", e.a.name, e.d.key, subscribedNow)
			}
			if state != model.StateOfDatatype_SUBSCRIBED && len(newErrs) == 0 && !e.d.noErr {
				r.fail("entry", "C13.refused-cleanly", e.mode+"/no-error-reported", "%s: %s of %s (racing with other entry requests) did not get in, but the error handler was not called", e.a.name, e.mode, e.d.key)
			}
			continue
		}
		r.probe("entry-" + e.mode + "-" + e.outcome)
		switch e.outcome {
		case "refused":
			r.probe("open-refused")
			if state == model.StateOfDatatype_SUBSCRIBED || subscribedNow > 0 {
				r.fail("entry", "C13.refused-cleanly", e.mode+"/accepted", "%s: %s of %s must be refused (%s) but the datatype became SUBSCRIBED (response option %s)", e.a.name, e.mode, e.d.key, e.why, pack.GetPushPullPackOption().String())
			}
			if len(newErrs) == 0 && !e.d.noErr {
				r.fail("entry", "C13.refused-cleanly", e.mode+"/no-error-reported", "%s: %s of %s must be refused (%s) but the error handler was not called", e.a.name, e.mode, e.d.key, e.why)
			}
			if after := r.partition(colNum, e.d.key); after != e.partBefore {
				r.fail("entry", "C13.refused-cleanly", e.mode+"/store-changed", "%s: refused %s of %s (%s) changed what is stored for the key:\n  before: %s  after : %s", e.a.name, e.mode, e.d.key, e.why, e.partBefore, after)
			}
		default:
			if state != model.StateOfDatatype_SUBSCRIBED {
				r.fail("entry", "C13.accepted", e.mode+"/not-subscribed", "%s: %s of %s should have been %s but the datatype is %s (errors: %v)", e.a.name, e.mode, e.d.key, e.outcome, state.String(), newErrs)
				// (C07: an entry request that is sent again - its answer was lost, or it was delivered twice - gets
				// in as it would have the first time; a client that stays outside is left out of every comparison)
				r.fail("msg", "C07.entry-as-if-delivered-once", e.mode+"/not-subscribed", "%s: %s of %s should have been %s but the datatype is %s (errors: %v)", e.a.name, e.mode, e.d.key, e.outcome, state.String(), newErrs)
				continue
			}
			if subscribedNow != 1 && !e.d.noState {
				r.fail("entry", "C13.subscribed-once", fmt.Sprintf("reported-%d", min(subscribedNow, 2)), "%s: the state-change handler of %s reported the transition to SUBSCRIBED %d times", e.a.name, e.d.key, subscribedNow)
			}
			// first state == the datatype's state at the log position it subscribed at
			dts, _ := r.readStore()
			for _, duid := range sortedKeys(dts) {
				di := dts[duid]
				if di.doc.CollectionNum != colNum || di.doc.Key != e.d.key || pack.CheckPoint == nil {
					continue
				}
				// (SubscribeOrCreate that turns out to be a subscription drops what was done locally before)
				if e.outcome == "subscribed" && (e.d.nLocalSinceOpen == 0 || e.mode == "soc") {
					dt, errS := r.replay(di, pack.CheckPoint.Sseq)
					if errS == "" {
						want := viewOfDT(dt)
						got := r.viewOf(e.d)
						r.probe("first-state-checked")
						if got != want {
							r.fail("entry", "C13.first-state", di.doc.Type, "%s: first state of %s after subscribing at log position %d differs from the replay of operations 1..%d:\n  client: %s\n  replay: %s", e.a.name, e.d.key, pack.CheckPoint.Sseq, pack.CheckPoint.Sseq, clip(got, 400), clip(want, 400))
						}
					}
				}
			}
		}
	}
	_ = kernel.Canon
}
