package engb

import (
	"encoding/json"
	"fmt"

	"verif/sim/enga"
	"verif/sim/kernel"
)

var kinds = []string{"counter", "map", "list", "doc"}
var keyPool = []string{"k1", "k2", "k3"}

type genCtx struct {
	nRace  int
	g      *kernel.Rng
	prop   string
	nAct   int
	keys   []string
	kindOf map[string]string
	late   [][2]interface{} // (actor, key) pairs that did not enter at the start
}

func (c *genCtx) localEv(a int) Ev {
	g := c.g
	e := Ev{T: "local", A: a, D: g.Intn(3), S: g.U64() % 1000}
	// the kind is only known at execution time (depends on which datatype D selects); give every field
	e.Delta = int32(g.Range(-20, 50))
	e.K = []string{"a", "b", "c", "x/y"}[g.Intn(4)]
	e.Pos = g.Intn(6)
	e.N = g.Intn(3)
	nv := 1
	if g.Chance(1, 4) {
		nv = g.Range(2, 4)
	}
	if c.prop == "C14" && g.Chance(1, 10) {
		nv = g.Range(5, 30)
	}
	for i := 0; i < nv; i++ {
		if g.Chance(1, 5) {
			e.V = append(e.V, enga.GenValue(g, 0, 2))
		} else {
			e.V = append(e.V, enga.GenPrim(g))
		}
	}
	if c.prop == "C14" && g.Chance(1, 6) {
		// shapes that have a Go struct / typed-slice form (see dress.go)
		ints := []interface{}{}
		for i := g.Intn(4); i >= 0; i-- {
			ints = append(ints, float64(g.Intn(70000)%65536))
		}
		if g.Chance(1, 2) {
			e.V[0] = map[string]interface{}{"a": float64(g.Range(-1000, 1000)), "b": fmt.Sprintf("s%d", g.Intn(100)), "c": ints}
		} else {
			e.V[0] = ints
		}
	}
	e.Op = []string{"put", "put", "rm", "ins", "ins", "del", "upd", "dput", "dput", "drm", "dins", "ddel", "dupd"}[g.Intn(13)]
	return e
}

// Gen derives the plan of run `seed` for an engine-B property.
func Gen(prop, tier string, seed uint64) *kernel.Plan {
	g := kernel.NewRng(seed).Derive("plan")
	thorough := tier == "thorough"
	cfg := Config{Colls: 1, Oracles: map[string]bool{"nocrash": true, "answered": true}}
	nAct := g.Range(2, 3)
	if thorough {
		nAct = g.Range(1, 5)
	}
	if prop == "C12" {
		// "2..16 simultaneous calls": more clients than elsewhere (plus observer, registrations, REST patches)
		nAct = g.Range(2, 4)
		if thorough {
			nAct = g.Range(2, 8)
		}
	}
	switch prop {
	case "C05":
		cfg.Oracles["conv"], cfg.Oracles["log"] = true, true
	case "C06":
		cfg.Oracles["log"] = true
	case "C07":
		cfg.Oracles["msg"] = true
	case "C08":
		cfg.Oracles["retry"] = true
	case "C11":
		cfg.Oracles["snap"] = true
		cfg.HoldPub = g.Chance(1, 2)
	case "C12":
		cfg.Oracles["serial"] = true
		cfg.Yields = g.Chance(2, 3)
	case "C13":
		cfg.Oracles["entry"] = true
	case "C14":
		cfg.Oracles["wire"] = true
	case "C16":
		cfg.Oracles["refuse"] = true
	case "C17":
		cfg.Oracles["iso"] = true
		cfg.Colls = g.Range(2, 3)
	case "C18":
		cfg.Oracles["notify"], cfg.Oracles["realtime"] = true, true
		cfg.HoldPub = g.Chance(1, 2)
		cfg.Colls = g.Pick([]int{2, 1}) + 1 // the same keys in two collections: two topics
	case "C19":
		cfg.Oracles["rest"], cfg.Oracles["log"] = true, true
	}
	realtime := prop == "C18"
	for i := 0; i < nAct; i++ {
		cfg.Actors = append(cfg.Actors, ActorCfg{Coll: g.Intn(cfg.Colls), Realtime: realtime && (i > 0 || g.Chance(2, 3))})
	}
	rtActor := -1
	if prop == "C13" && nAct > 1 && g.Chance(1, 3) {
		// one realtime client among the manual ones: its entries go through the notification
		// subscription, which can fail (mqttfail)
		rtActor = g.Range(1, nAct-1)
		cfg.Actors[rtActor].Realtime = true
	}
	c := &genCtx{g: g, prop: prop, nAct: nAct, kindOf: map[string]string{}}
	nk := g.Range(1, 2)
	for i := 0; i < nk; i++ {
		k := keyPool[i]
		c.keys = append(c.keys, k)
		c.kindOf[k] = kinds[g.Pick([]int{2, 3, 3, 3})]
		if (prop == "C19" && (i == 0 || g.Chance(2, 3))) || (prop == "C11" && g.Chance(1, 3)) {
			c.kindOf[k] = "doc"
		}
	}
	var evs []Ev
	// entry: the first actor creates, the others subscribe / subscribe-or-create after the creator's first sync
	for _, k := range c.keys {
		creator := g.Intn(nAct)
		mode := "create"
		if g.Chance(1, 3) {
			mode = "soc"
		}
		evs = append(evs, Ev{T: "open", A: creator, K: k, Kind: c.kindOf[k], Mode: mode})
		if g.Chance(1, 2) {
			evs = append(evs, c.localEv(creator))
		}
		first := Ev{T: "sync", A: creator}
		if (prop == "C19" || prop == "C11") && g.Chance(1, 5) {
			// the creating commit succeeds but its snapshot is not written: a datatype without snapshot
			first.MF = append(first.MF, MongoFault{At: g.Range(8, 12), Kind: []string{"errBefore", "errAfter"}[g.Intn(2)]})
		}
		switch {
		case (prop == "C07" || prop == "C13") && g.Chance(1, 5):
			// the creating push is stored but its answer never arrives
			first.Resp = "drop"
		case (prop == "C08" || prop == "C16") && g.Chance(1, 5):
			first.MF = append(first.MF, MongoFault{At: g.Range(5, 12), Kind: []string{"errBefore", "errAfter"}[g.Intn(2)]})
		}
		evs = append(evs, first)
		if prop == "C19" && c.kindOf[k] == "doc" && g.Chance(1, 3) {
			evs = append(evs, Ev{T: "patch", A: creator, K: k, S: g.U64() % 100000})
		}
		for a := 0; a < nAct; a++ {
			if a != creator && g.Chance(1, 5) {
				c.late = append(c.late, [2]interface{}{a, k})
				continue
			}
			if a == creator {
				continue
			}
			m := "subscribe"
			if g.Chance(1, 2) {
				m = "soc"
			}
			if a == rtActor && g.Chance(1, 2) {
				evs = append(evs, Ev{T: "mqttfail", A: a, N: g.Intn(2)})
			}
			evs = append(evs, Ev{T: "open", A: a, K: k, Kind: c.kindOf[k], Mode: m})
			if g.Chance(2, 3) {
				evs = append(evs, Ev{T: "sync", A: a})
			}
		}
	}
	nev := g.Range(15, 40)
	if thorough {
		nev = g.Range(30, 120)
	}
	wLocal, wTx, wSync, wPar, wAdv, wLate := 50, 5, 25, 0, 4, 0
	wRogue, wReset, wPatch, wWire := 0, 0, 0, 0
	switch prop {
	case "C16":
		wRogue = 25
	case "C17":
		wRogue, wReset = 12, 2
	case "C19":
		wPatch = 12
	case "C06":
		wWire = 15
	case "C07":
		wWire = 15
	case "C18":
		wSync = 3
		wReset = 1
		wPatch = 2 // a REST patch is a push like any other: it is announced, realtime clients follow
	case "C13":
		wReset = 1
	}
	if prop == "C12" {
		wPar = 20
		// no rogue requests here: a handler that panics and recovers makes the race-detector build of the
		// Go runtime fall over now and then (DESIGN 10-27); misbehaving requests are C16's business
	}
	if prop == "C11" {
		wPar = 6
	}
	if prop == "C05" || prop == "C06" || prop == "C13" {
		// Sync calls of different clients overlap in real deployments (a late subscriber's first sync
		// while somebody pushes): a few simultaneous syncs with seeded interleaving of their commands
		wPar = 5
	}
	for i := 0; i < nev; i++ {
		a := g.Intn(nAct)
		switch g.Pick([]int{wLocal, wTx, wSync, wPar, wAdv, wLate, wRogue, wReset, wPatch, wWire}) {
		case 0:
			evs = append(evs, c.localEv(a))
		case 1:
			tx := Ev{T: "tx", A: a, D: g.Intn(3), Fail: g.Chance(1, 4)}
			for k := g.Range(1, 4); k > 0; k-- {
				b := c.localEv(a)
				b.D = tx.D
				tx.Body = append(tx.Body, b)
			}
			evs = append(evs, tx)
		case 2:
			e := Ev{T: "sync", A: a}
			c.decorate(&e)
			evs = append(evs, e)
		case 3:
			e := Ev{T: "par", S: g.U64() % 100000}
			if (prop == "C12" || prop == "C06" || prop == "C05") && nAct >= 3 && g.Chance(1, 3) {
				// one request holds the lock of a datatype while the database is slow, a second one waits
				// until its lease runs out, a third one arrives right after that
				p := []int{0, 1, 2}
				if nAct > 3 {
					p = []int{a, (a + 1) % nAct, (a + 2) % nAct}
				}
				sh := g.Intn(3)
				e.Par = []int{p[sh], p[(sh+1)%3]}
				e.Late = []int{p[(sh+2)%3]}
				e.MF = []MongoFault{{At: g.Range(3, 9), Kind: "slow"}}
				if g.Chance(1, 3) {
					e.Dur = 10 // the third request arrives 10.05 s into a holder that takes 10.5-12 s
				}
				evs = append(evs, c.localEv(e.Par[0]), c.localEv(e.Late[0]), e)
				break
			}
			for k := g.Range(2, nAct+1); k > 0; k-- {
				e.Par = append(e.Par, g.Intn(nAct))
			}
			c.decorate(&e)
			evs = append(evs, e)
		case 4:
			evs = append(evs, Ev{T: "advance", Dur: []int64{1, 5, 50, 1000, 6000, 60000, 86400000}[g.Intn(7)]})
		case 6:
			e := Ev{T: "rogue", A: a, S: g.U64() % 100000}
			if prop == "C17" {
				e.Mode = []string{"other-collection", "foreign-duid", "client-other-collection", "unknown-collection", "used-duid"}[g.Intn(5)]
			}
			evs = append(evs, e)
		case 7:
			rs := Ev{T: "reset", A: g.Intn(3)}
			if prop == "C17" && g.Chance(1, 3) {
				// the database fails on one command of the purge
				rs.MF = []MongoFault{{At: g.Range(1, 9), Kind: []string{"errBefore", "errAfter"}[g.Intn(2)]}}
			}
			evs = append(evs, rs)
			// the applications of the reset collection start over: fresh clients, the same keys again
			for x := 0; x < nAct; x++ {
				if g.Chance(1, 4) {
					continue
				}
				evs = append(evs, Ev{T: "rejoin", A: x})
				for _, k := range c.keys {
					if g.Chance(1, 4) {
						continue
					}
					mode := []string{"create", "soc", "soc", "subscribe"}[g.Intn(4)]
					if realtime {
						// A realtime client whose entry request is refused (create of a key somebody else has
						// re-created meanwhile, subscribe to a key nobody has) re-sends it at once, for ever
						// (DeliverTransaction re-delivers while NeedPush): no statement of the given properties
						// covers that, and the run would never become quiet. Realtime clients re-enter by
						// subscribe-or-create.
						mode = "soc"
					}
					evs = append(evs, Ev{T: "open", A: x, K: k, Kind: c.kindOf[k], Mode: mode})
					if g.Chance(1, 2) {
						evs = append(evs, c.localEv(x))
					}
					if g.Chance(2, 3) {
						evs = append(evs, Ev{T: "sync", A: x})
					}
				}
			}
		case 8:
			k := c.keys[g.Intn(len(c.keys))]
			if g.Chance(1, 4) {
				k = "restkey"
			}
			evs = append(evs, Ev{T: "patch", A: a, K: k, S: g.U64() % 100000})
		case 9:
			e := Ev{T: "wire", A: a, N: g.Intn(4)}
			switch g.Intn(6) {
			case 0:
				e.Mode = "repush"
			case 1:
				e.Mode = "reapply"
			case 2:
				e.Mode = "stale"
			case 3:
				e.Resp = "drop"
			}
			if prop == "C06" && (e.Mode == "reapply" || e.Mode == "stale") {
				// C06 is about what the server stores: keep the request shapes an unlucky client sends
				// (the same request again; acknowledged operations followed by new ones after a lost
				// response), leave response games to C07
				e.Mode = "repush"
			}
			evs = append(evs, e)
		}
		if prop == "C13" && g.Chance(1, 6) {
			// the whole entry matrix: any mode, any kind (possibly not the key's), any key (possibly unused)
			k := append(append([]string{}, c.keys...), "k9")[g.Intn(len(c.keys)+1)]
			kind := c.kindOf[k]
			if kind == "" || g.Chance(1, 3) {
				kind = kinds[g.Intn(4)]
			}
			evs = append(evs, Ev{T: "open", A: a, K: k, Kind: kind, Mode: []string{"create", "subscribe", "soc"}[g.Intn(3)]})
			if g.Chance(2, 3) {
				evs = append(evs, Ev{T: "sync", A: a})
			}
		}
		if prop == "C17" && g.Chance(1, 20) {
			// a creating commit is interrupted after its operations were stored, and the collection is reset
			// before the creator retries
			k := fmt.Sprintf("kx%d", i)
			evs = append(evs, Ev{T: "open", A: a, K: k, Kind: kinds[g.Intn(4)], Mode: "create"}, c.localEv(a),
				Ev{T: "sync", A: a, MF: []MongoFault{{At: g.Range(7, 9), Kind: []string{"errBefore", "errAfter"}[g.Intn(2)]}}})
			for x := 0; x < 3; x++ {
				evs = append(evs, Ev{T: "reset", A: x})
			}
		}
		if prop == "C18" && g.Chance(1, 3) {
			grp := Ev{T: "group", S: g.U64() % 100000}
			for k := g.Range(2, 4); k > 0; k-- {
				grp.Body = append(grp.Body, c.localEv(g.Intn(nAct)))
			}
			evs = append(evs, grp)
		}
		if prop == "C13" && g.Chance(1, 8) {
			// racing entry: several clients open the same unused key and sync at the same time
			c.nRace++
			k := fmt.Sprintf("kr%d", c.nRace)
			kind := kinds[g.Intn(4)]
			e := Ev{T: "par", S: g.U64() % 100000}
			for x := 0; x < nAct; x++ {
				if x > 1 && g.Chance(1, 3) {
					continue
				}
				kd := kind
				if g.Chance(1, 6) {
					kd = kinds[g.Intn(4)]
				}
				evs = append(evs, Ev{T: "open", A: x, K: k, Kind: kd, Mode: []string{"create", "soc", "soc", "subscribe"}[g.Intn(4)]})
				if g.Chance(1, 2) {
					evs = append(evs, c.localEv(x))
				}
				e.Par = append(e.Par, x)
			}
			evs = append(evs, e)
		}
		if prop == "C13" && g.Chance(1, 15) {
			// the application asks its client again for a key it holds (same or another type, any mode,
			// with or without handlers)
			k := c.keys[g.Intn(len(c.keys))]
			evs = append(evs, Ev{T: "open", A: a, K: k, Kind: kinds[g.Intn(4)], Mode: []string{"create", "subscribe", "soc"}[g.Intn(3)], Pos: 1, N: []int{0, 0, 4, 8}[g.Intn(4)]})
		}
		if prop == "C18" && g.Chance(1, 12) {
			// the answer to this client's next push (it pushes by itself after its next local operation)
			// is slow: a pull caused by somebody else's notification overtakes it
			evs = append(evs, Ev{T: "holdresp", A: a, N: g.Intn(3)}, c.localEv(a))
		}
		if prop == "C17" && g.Chance(1, 30) {
			evs = append(evs, Ev{T: "parcoll", S: g.U64() % 100000})
		}
		if (prop == "C11" || prop == "C19") && g.Chance(1, 8) {
			evs = append(evs, Ev{T: "patchsync", A: a, S: g.U64() % 100000})
		}
		if (prop == "C16" || prop == "C19" || prop == "C12") && g.Chance(1, 12) {
			k := "restkey"
			if g.Chance(1, 2) {
				k = c.keys[g.Intn(len(c.keys))]
			}
			evs = append(evs, Ev{T: "parpatch", A: a, K: k, S: g.U64() % 100000})
		}
		if (prop == "C05" || prop == "C06" || prop == "C08" || prop == "C07") && g.Chance(1, 40) {
			b := Ev{T: "burst", A: a, D: g.Intn(3), N: g.Intn(150)}
			if g.Chance(1, 8) {
				b.N = 1000 + g.Intn(150)
			}
			evs = append(evs, b)
		}
		if g.Chance(1, 25) {
			// late subscriber
			k := c.keys[g.Intn(len(c.keys))]
			evs = append(evs, Ev{T: "open", A: a, K: k, Kind: c.kindOf[k], Mode: []string{"subscribe", "soc"}[g.Intn(2)]})
			if wPar > 0 && nAct > 1 && g.Chance(1, 2) {
				// its first sync at the same moment as somebody else's push
				b := (a + 1 + g.Intn(nAct-1)) % nAct
				evs = append(evs, c.localEv(b))
				e := Ev{T: "par", S: g.U64() % 100000, Par: []int{a, b}}
				c.decorate(&e)
				evs = append(evs, e)
			}
		}
	}
	if prop == "C18" && len(c.late) > 0 && nAct > 1 && g.Chance(1, 2) {
		// A client subscribes late and the answer to its subscription is slow; somebody else pushes
		// meanwhile - announced before the newcomer listens - and then nobody pushes any more.
		lt := c.late[g.Intn(len(c.late))]
		a, k := lt[0].(int), lt[1].(string)
		b := (a + 1 + g.Intn(nAct-1)) % nAct
		evs = append(evs, Ev{T: "holdresp", A: a, N: g.Range(1, 2)}, Ev{T: "open", A: a, K: k, Kind: c.kindOf[k], Mode: "soc"},
			c.localEv(b), c.localEv(b))
	}
	vary(prop, kernel.NewRng(seed).Derive("vary"), &cfg, evs)
	cb, _ := json.Marshal(cfg)
	return &kernel.Plan{Engine: "B", Property: prop, Seed: seed, Config: cb, Events: encodeEvents(evs)}
}

// vary changes, per run, things no property depends on (swarm style), from a stream of its own so that
// the rest of the plan is what it was: the names of the keys, which of the three optional handlers an
// application registers, the order of the packs in requests and answers.
func vary(prop string, g *kernel.Rng, cfg *Config, evs []Ev) {
	cfg.PackOrder = prop == "C12" || g.Chance(1, 2)
	if cfg.Colls > 1 && g.Chance(1, 2) {
		// collection names that differ only in a separator or in case (whatever is derived from a
		// name - the name of the per-collection MongoDB collection, topics, lock names - has to keep
		// them apart)
		cfg.CollNames = [][]string{{"shop.eu", "shop_eu", "shop-eu"}, {"Orders", "orders", "ORDERS"}, {"a.b", "a_b", "a-b"}}[g.Intn(3)][:cfg.Colls]
	}
	// handlers: bit 1 = no state-change handler, 2 = no remote-operation handler, 4 = no error handler
	hv := g.Chance(1, 5) || (prop == "C13" && g.Chance(1, 3))
	style := g.Intn(4) // 0,1: the plain names; 2: document-<n>; 3: arbitrary
	names := map[string]string{}
	rename := func(k string) string {
		if style < 2 || k == "" {
			return k
		}
		if n, ok := names[k]; ok {
			return n
		}
		var n string
		for {
			if style == 2 {
				n = fmt.Sprintf("document-%d", g.Intn(1000))
			} else {
				const chars = "abcdefghijklmnopqrstuvwxyzABCDEFGHIJKLMNOPQRSTUVWXYZ0123456789_-."
				b := make([]byte, g.Range(1, 24))
				for i := range b {
					b[i] = chars[g.Intn(len(chars)-3*btoi(i == 0))]
				}
				n = string(b)
			}
			dup := false
			for _, o := range names {
				dup = dup || o == n
			}
			if !dup {
				break
			}
		}
		names[k] = n
		return n
	}
	observer := (prop == "C12" || prop == "C06" || prop == "C05" || prop == "C16") && g.Chance(1, 2)
	var walk func(es []Ev)
	walk = func(es []Ev) {
		for i := range es {
			e := &es[i]
			switch e.T {
			case "sync", "par":
				if prop == "C12" && g.Chance(1, 4) {
					e.Join = g.Range(1, 2)
					if e.S == 0 {
						e.S = 1 + g.U64()%100000
					}
				}
				if observer && g.Chance(1, 3) {
					e.Rd = 1
					if e.S == 0 {
						e.S = 1 + g.U64()%100000
					}
				}
			case "tx":
				if prop == "C14" && g.Chance(1, 3) {
					// the tag travels in the transaction's head operation: quotes, backslashes, control
					// characters, DEL, code points outside the BMP (all valid UTF-8: the plan is a JSON file)
					e.Tag = txTags[g.Intn(len(txTags))]
				}
			case "open":
				e.K = rename(e.K)
				if hv && e.Pos != 1 && g.Chance(1, 2) {
					e.N = g.Range(1, 7)
				}
			case "patch":
				if e.K == "" {
					e.K = "k1"
				}
				e.K = rename(e.K)
			case "parpatch":
				if e.K == "" {
					e.K = "restkey"
				}
				e.K = rename(e.K)
			}
			walk(e.Body)
		}
	}
	walk(evs)
}

func btoi(b bool) int {
	if b {
		return 1
	}
	return 0
}

// decorate adds the property's fault / scheduling modifiers to a sync event.
func (c *genCtx) decorate(e *Ev) {
	g := c.g
	if (c.prop == "C05" || c.prop == "C06" || c.prop == "C07" || c.prop == "C13") && e.T == "sync" && g.Chance(1, 5) {
		// the application goes on working while its Sync() is in flight
		for k := g.Range(1, 2); k > 0; k-- {
			e.Body = append(e.Body, c.localEv(e.A))
		}
	}
	switch c.prop {
	case "C07":
		if g.Chance(1, 3) {
			switch g.Intn(4) {
			case 0:
				e.Resp = "drop"
			case 1:
				e.Req = "dup"
				e.S = g.U64() % 1000
			case 2:
				e.Req = "lost"
			case 3:
				e.Resp = "late"
				e.N = g.Intn(3)
			}
		}
	case "C08":
		if g.Chance(1, 3) {
			e.MF = append(e.MF, MongoFault{At: g.Range(1, 14), Kind: []string{"errBefore", "errAfter", "partial", "crashBefore", "crashAfter"}[g.Intn(5)]})
		}
	case "C16":
		// a request that fails inside the server (after it was accepted) is answered with an error, too
		if g.Chance(1, 5) {
			e.MF = append(e.MF, MongoFault{At: g.Range(3, 12), Kind: []string{"errBefore", "errAfter"}[g.Intn(2)]})
		}
	case "C17":
		// an interrupted commit right before a reset or a cross-collection request
		if g.Chance(1, 6) {
			e.MF = append(e.MF, MongoFault{At: g.Range(4, 9), Kind: []string{"errBefore", "errAfter"}[g.Intn(2)]})
		}
	case "C18":
		// the answer to a manual client's push is lost: the retry stores nothing and announces nothing
		if g.Chance(1, 5) {
			e.Resp = "drop"
		}
	case "C19":
		// a commit that fails half way right before a REST patch
		if g.Chance(1, 6) {
			e.MF = append(e.MF, MongoFault{At: g.Range(5, 9), Kind: []string{"errAfter", "partial", "errBefore"}[g.Intn(3)]})
		}
	case "C11":
		if g.Chance(1, 2) {
			e.Post = "lag"
			e.N = g.Intn(5)
		}
		if g.Chance(1, 10) {
			e.MF = append(e.MF, MongoFault{At: g.Range(5, 9), Kind: []string{"errAfter", "partial", "errBefore"}[g.Intn(3)]})
		}
		if g.Chance(1, 8) {
			e.MF = append(e.MF, MongoFault{At: g.Range(6, 14), Kind: "slow"})
		}
	case "C12":
		if g.Chance(1, 6) {
			e.MF = append(e.MF, MongoFault{At: g.Range(2, 8), Kind: "slow"})
		}
		if g.Chance(1, 4) {
			e.MF = append(e.MF, MongoFault{At: g.Range(3, 9), Kind: "stall"})
		}
	}
}

var _ = fmt.Sprint

var txTags = []string{"", "a \"quoted\" tag", "back\\slash \\u0041", "tab\tnewline\n", "\x01", "bell\a", "del\x7f", "\U000e0001 tag", "日本語 ✓ 😀", "</script>&amp;", "{\"Tag\":1}"}
