package engb

import (
	"fmt"
	"testing/synctest"
	"time"

	"github.com/orda-io/orda/client/pkg/errors"
	"github.com/orda-io/orda/client/pkg/iface"
	"github.com/orda-io/orda/client/pkg/model"
	"github.com/orda-io/orda/client/pkg/orda"
	"github.com/orda-io/orda/server/schema"

	"verif/sim/kernel"
)

func collName(i int) string { return fmt.Sprintf("col%d", i+1) }

// collName: the name of the i-th collection of this run.
func (r *run) collName(i int) string {
	if i < len(r.cfg.CollNames) && r.cfg.CollNames[i] != "" {
		return r.cfg.CollNames[i]
	}
	return collName(i)
}

func (r *run) body(evs []Ev) {
	w := r.w
	r.mon = newMonitors()
	if err := w.startServer(); err != nil {
		r.harness("server start: %v", err)
	}
	if r.cfg.Colls < 1 {
		r.cfg.Colls = 1
	}
	for i := 0; i < r.cfg.Colls; i++ {
		if err := w.createCollection(r.collName(i)); err != nil {
			r.harness("create collection: %v", err)
		}
		r.colls = append(r.colls, r.collName(i))
	}
	w.mongo.Auto = true
	for _, ac := range r.cfg.Actors {
		a := w.newActor(r.collName(ac.Coll%r.cfg.Colls), ac.Realtime)
		r.connect(a)
	}
	w.mongo.Auto = false
	w.br.holdPub = r.cfg.HoldPub
	seam.reset(r.cfg.Yields)
	r.mon.afterSetup(r)
	for i, e := range evs {
		r.step = i + 1
		r.evSlow, r.evStall = 0, nil
		r.dispatch(e)
		r.afterEvent(e)
	}
	r.step = len(evs) + 1
	r.finalDrain()
}

func (r *run) connect(a *actor) {
	w := r.w
	w.cur = a
	var err error
	done := make(chan struct{})
	go func() { defer close(done); err = a.client.Connect() }()
	synctest.Wait()
	for _, c := range w.tr.byState("queued") {
		r.release(c)
	}
	synctest.Wait()
	for _, c := range w.tr.byState("answered") {
		r.deliverResp(c, false)
	}
	synctest.Wait()
	select {
	case <-done:
	default:
		r.harness("connect of %s did not finish", a.name)
	}
	w.cur = nil
	if err != nil {
		r.harness("connect of %s failed: %v", a.name, err)
	}
	a.connected = true
	// the cuid is the first id the client drew
	a.cuid = clientCUID(a)
}

func (r *run) actor(i int) *actor {
	if i < 0 {
		i = -i
	}
	return r.w.actors[i%len(r.w.actors)]
}

func (a *actor) dt(i int) *dtState {
	if len(a.dts) == 0 {
		return nil
	}
	if i < 0 {
		i = -i
	}
	return a.dts[i%len(a.dts)]
}

// quietGone: a realtime client whose collection was reset under it (its registration is gone) re-sends a
// refused push at once, for ever (DeliverTransaction re-delivers while NeedPush). None of the given
// properties speaks about that, and the run would never become quiet: such a client issues nothing more.
func (r *run) quietGone(i int) bool {
	a := r.actor(i)
	return a.gone && a.realtime
}

func (r *run) dispatch(e Ev) {
	r.trace.Str(e.T).Str(e.Op).Int(e.A)
	switch e.T {
	case "local", "burst", "tx", "open":
		if r.quietGone(e.A) {
			return
		}
	}
	switch e.T {
	case "open":
		r.open(r.actor(e.A), e)
	case "local":
		a := r.actor(e.A)
		if d := a.dt(e.D); d != nil {
			r.local(a, d, apiOf(d.pub), e)
		}
	case "burst":
		// a long offline period: many local operations before the next sync
		a := r.actor(e.A)
		if d := a.dt(e.D); d != nil {
			n := 100 + mod(e.N, 150)
			if e.N >= 1000 {
				n = e.N // a very long offline period: more than a thousand operations for the others to pull
			}
			for i := 0; i < n; i++ {
				b := Ev{T: "local", A: e.A, D: e.D, Op: []string{"put", "ins", "dput", "dins"}[i%4], K: fmt.Sprintf("b%d", i%7), Pos: i % 5, Delta: int32(i + 1), V: []interface{}{float64(i)}}
				r.local(a, d, apiOf(d.pub), b)
			}
			r.probe("burst")
		}
	case "tx":
		a := r.actor(e.A)
		if d := a.dt(e.D); d != nil {
			r.tx(a, d, e)
		}
	case "group":
		// several clients act at (almost) the same time: nothing is delivered between their operations,
		// so that the pushes, answers and notifications they cause overlap and are interleaved by the
		// seeded choice of the settle step that follows the event
		for _, b := range e.Body {
			a := r.actor(b.A)
			if r.quietGone(b.A) {
				continue
			}
			if d := a.dt(b.D); d != nil {
				r.local(a, d, apiOf(d.pub), b)
			}
			synctest.Wait() // the client's own goroutines run until they wait for the transport
		}
		r.probe("group")
	case "sync":
		if a := r.actor(e.A); a.gone && !a.realtime && r.on("iso") {
			r.ghostSync(a)
			return
		}
		r.syncEvent([]*actor{r.actor(e.A)}, e)
	case "par":
		var as []*actor
		seen := map[*actor]bool{}
		for _, i := range e.Par {
			a := r.actor(i)
			if !seen[a] {
				seen[a] = true
				as = append(as, a)
			}
		}
		r.syncEvent(as, e)
	case "advance":
		d := time.Duration(e.Dur) * time.Millisecond
		r.logf("advance %v", d)
		r.w.tick(d)
	case "restart":
		r.logf("restart server")
		r.crashServer()
	case "drain":
		r.drainLag(kernel.NewRng(e.S + 1))
	case "patch":
		r.restPatch(e)
	case "parcoll":
		r.parCollection(e)
	case "parpatch":
		r.parPatch(e)
	case "patchsync":
		r.patchSync(e)
	case "rogue":
		r.rogue(e)
	case "reset":
		r.resetCollection(e)
	case "rejoin":
		r.rejoin(e)
	case "mqttfail":
		// the notification broker cannot be reached for the next topic subscription(s) of this client
		a := r.actor(e.A)
		if a.realtime {
			a.mq.b.mu.Lock()
			a.mq.failSubs = 1 + mod(e.N, 2)
			a.mq.b.mu.Unlock()
			r.fault("mqtt-subscribe-fails-armed")
		}
	case "wire":
		r.wireEvent(e)
	case "holdresp":
		// the answer to the next push-pull of this (realtime) client is slow
		if a := r.actor(e.A); a.realtime && !a.gone {
			if r.holdNext == nil {
				r.holdNext = map[string]int{}
			}
			r.holdNext[a.name] = 1 + mod(e.N, 3)
		}
	}
}

func (r *run) afterEvent(e Ev) {
	// due late responses
	var keep []*heldResp
	for _, h := range r.held {
		h.after--
		if h.after <= 0 {
			// quiescence before and after: a client that gets its answer may send its next request at
			// once, and the numbering of requests must not depend on which goroutine is faster
			synctest.Wait()
			r.logf("late response of %s is delivered now", callOwner(h.c))
			r.deliverResp(h.c, false)
			synctest.Wait()
			r.fault("resp-late-delivered")
		} else {
			keep = append(keep, h)
		}
	}
	r.held = keep
	r.settle(kernel.NewRng(e.S ^ 0x5eed))
	r.mon.afterEvent(r)
	if r.cfg.Observe {
		r.noteVersions()
	}
	// state digest for the event log
	h := kernel.NewHasher()
	for _, a := range r.w.actors {
		for _, d := range a.dts {
			v := r.viewOf(d)
			h.Str(a.name).Str(d.key).Str(v)
			if r.verbose && noClip {
				r.logf("  settled: %s %s = %s", a.name, d.key, clip(v, 300))
			}
		}
	}
	h.Str(r.storeDigest())
	r.slog.U64(h.Sum())
	r.states[h.Sum()] = true
}

// rejoin: the application whose collection was reset starts over with a fresh client.
func (r *run) rejoin(e Ev) {
	w := r.w
	old := r.actor(e.A)
	if !old.gone {
		return
	}
	old.mu.Lock()
	busy := old.syncing > 0
	old.mu.Unlock()
	if busy {
		return
	}
	// the old client object goes away (its notification subscriptions with it)
	done := make(chan struct{})
	go func() {
		defer close(done)
		defer func() { recover() }()
		_ = old.client.Close()
	}()
	synctest.Wait()
	old.mq.Disconnect(0)
	a := w.replaceActor(old)
	r.mon.honest[a.name] = true // the fresh client of the same application is judged like the one it replaces
	wasAuto := w.mongo.Auto
	w.mongo.Auto = true
	r.connect(a)
	w.mongo.Auto = wasAuto
	r.probe("rejoin")
	r.logf("%s replaces %s (collection %s was reset)", a.name, old.name, a.collection)
}

// ---------------------------------------------------------------- opening datatypes

func (r *run) open(a *actor, e Ev) {
	key, kind, mode := e.K, e.Kind, e.Mode
	if key == "" {
		key = "k1"
	}
	if a.realtime {
		// A realtime client whose entry is refused re-sends the refused request at once, for ever (see
		// quietGone and DESIGN 10-24): it never asks for a key with another type than the key has (a REST
		// patch of an absent key may have made it a Document meanwhile).
		if have := r.typeOfKey(a.collection, key); have != "" && have != kind {
			r.probe("realtime-open-skipped-other-type")
			return
		}
	}
	if a.realtime && r.prop != "C18" {
		// (same reason as below) outside the realtime property a realtime client only makes entries that
		// cannot be refused: subscribe-or-create with the type the key has, if it has one
		mode = "soc"
		if have := r.typeOfKey(a.collection, key); have != "" && have != kind {
			return
		}
	}
	if a.realtime && r.cfg.Colls > 1 {
		// with several collections the plan's idea of who created a key first does not hold per collection
		mode = "soc"
		if have := r.typeOfKey(a.collection, key); have != "" && have != kind {
			return
		}
	}
	if a.realtime && r.res.Probes["reset"] > 0 {
		// After a reset the plan's idea of which keys exist is void. A realtime client whose entry is
		// refused (create of an existing key, subscribe to a missing one) re-sends the refused request
		// at once, for ever, as soon as it has a local operation (see quietGone): realtime clients
		// re-enter by subscribe-or-create, which cannot be refused for the key's own type.
		mode = "soc"
	}
	for _, d := range a.dts {
		if d.key == key {
			if e.Pos == 1 {
				r.openAgain(a, d, e, mode, kind)
			}
			return // one object per key and actor
		}
	}
	d := &dtState{key: key, kind: kind, mode: mode}
	onState := func(dt orda.Datatype, old, nw model.StateOfDatatype) {
		d.mu.Lock()
		d.chg = append(d.chg, stateChange{old, nw})
		d.mu.Unlock()
	}
	onRemote := func(dt orda.Datatype, ops []interface{}) {
		ids := flattenOpIDs(ops)
		d.mu.Lock()
		d.rops = append(d.rops, ids...)
		d.mu.Unlock()
	}
	onError := func(dt orda.Datatype, errs ...errors.OrdaError) {
		d.mu.Lock()
		for _, x := range errs {
			d.errs = append(d.errs, fmt.Sprintf("%d:%s", x.GetCode(), x.Error()))
		}
		d.mu.Unlock()
	}
	// the three handlers are optional: an application registers the ones it needs
	d.noState, d.noRemote, d.noErr = e.N&1 != 0, e.N&2 != 0, e.N&4 != 0
	if d.noState {
		onState = nil
	}
	if d.noRemote {
		onRemote = nil
	}
	if d.noErr {
		onError = nil
	}
	if e.N&7 != 0 {
		r.probe("open-without-some-handler")
	}
	h := orda.NewHandlers(onState, onRemote, onError)
	var pub interface{}
	msg, fp := safely(func() {
		c := a.client
		switch mode + ":" + kind {
		case "create:counter":
			pub = c.CreateCounter(key, h)
		case "subscribe:counter":
			pub = c.SubscribeCounter(key, h)
		case "soc:counter":
			pub = c.SubscribeOrCreateCounter(key, h)
		case "create:map":
			pub = c.CreateMap(key, h)
		case "subscribe:map":
			pub = c.SubscribeMap(key, h)
		case "soc:map":
			pub = c.SubscribeOrCreateMap(key, h)
		case "create:list":
			pub = c.CreateList(key, h)
		case "subscribe:list":
			pub = c.SubscribeList(key, h)
		case "soc:list":
			pub = c.SubscribeOrCreateList(key, h)
		case "create:doc":
			pub = c.CreateDocument(key, h)
		case "subscribe:doc":
			pub = c.SubscribeDocument(key, h)
		default:
			pub = c.SubscribeOrCreateDocument(key, h)
		}
	})
	if msg != "" {
		r.fail("nocrash", r.prop+".client-crash", fp, "%s: opening %s/%s (%s) panicked: %s", a.name, key, kind, mode, msg)
		panic(abortRun{})
	}
	if pub == nil || isNilIface(pub) {
		r.probe("open-nil")
		return
	}
	d.pub = pub.(orda.Datatype)
	d.dt = pub.(iface.Datatype)
	a.dts = append(a.dts, d)
	r.probe("open-" + mode)
	r.logf("%s opens %s %s (%s)", a.name, kind, key, mode)
}

// openAgain: the application asks its client for a key it holds already. With the same type it gets the
// object it has (whatever the state of its entry); with another type it gets nothing and, if it gave an
// error handler, the error - never a second replica under the key, never a crash.
func (r *run) openAgain(a *actor, d *dtState, e Ev, mode, kind string) {
	key := d.key
	var errs []string
	var onError func(dt orda.Datatype, es ...errors.OrdaError)
	if e.N&4 == 0 {
		onError = func(dt orda.Datatype, es ...errors.OrdaError) {
			d.mu.Lock()
			for _, x := range es {
				errs = append(errs, fmt.Sprintf("%d:%s", x.GetCode(), x.Error()))
			}
			d.mu.Unlock()
		}
	}
	var h *orda.Handlers
	if e.N&8 == 0 {
		h = orda.NewHandlers(nil, nil, onError)
	}
	var pub interface{}
	msg, fp := safely(func() { pub = openCall(a.client, mode, kind, key, h) })
	r.probe("open-again")
	if msg != "" {
		r.fail("nocrash", r.prop+".client-crash", fp, "%s: asking again for %s (held as %s, asked as %s, %s) panicked: %s", a.name, key, d.kind, kind, mode, msg)
		panic(abortRun{})
	}
	synctest.Wait()
	got := pub != nil && !isNilIface(pub)
	d.mu.Lock()
	nerr := len(errs)
	d.mu.Unlock()
	if kind == d.kind {
		r.probe("open-again-same-type")
		if !got {
			r.fail("entry", "C13.same-key-again", "same-type/nothing", "%s: asked again for %s %s (%s) and got nothing (errors: %v)", a.name, kind, key, mode, errs)
		} else if dt, ok := pub.(iface.Datatype); !ok || dt != d.dt {
			r.fail("entry", "C13.same-key-again", "same-type/second-replica", "%s: asked again for %s %s (%s) and got another object than the one it holds: two replicas under one key in one client", a.name, kind, key, mode)
		}
		return
	}
	r.probe("open-again-other-type")
	if got {
		r.fail("entry", "C13.same-key-again", "other-type/object", "%s: holds %s as %s, asked for it as %s (%s) and got an object", a.name, key, d.kind, kind, mode)
	}
	if onError != nil && h != nil && nerr == 0 {
		r.fail("entry", "C13.same-key-again", "other-type/no-error", "%s: holds %s as %s, asked for it as %s (%s): refused, but the error handler given with the call was not called", a.name, key, d.kind, kind, mode)
	}
}

func openCall(c orda.Client, mode, kind, key string, h *orda.Handlers) interface{} {
	switch mode + ":" + kind {
	case "create:counter":
		return c.CreateCounter(key, h)
	case "subscribe:counter":
		return c.SubscribeCounter(key, h)
	case "soc:counter":
		return c.SubscribeOrCreateCounter(key, h)
	case "create:map":
		return c.CreateMap(key, h)
	case "subscribe:map":
		return c.SubscribeMap(key, h)
	case "soc:map":
		return c.SubscribeOrCreateMap(key, h)
	case "create:list":
		return c.CreateList(key, h)
	case "subscribe:list":
		return c.SubscribeList(key, h)
	case "soc:list":
		return c.SubscribeOrCreateList(key, h)
	case "create:doc":
		return c.CreateDocument(key, h)
	case "subscribe:doc":
		return c.SubscribeDocument(key, h)
	}
	return c.SubscribeOrCreateDocument(key, h)
}

// typeOfKey: kind of the datatype stored under (collection, key), "" if none.
func (r *run) typeOfKey(coll, key string) string {
	num := r.collNum(coll)
	for _, d := range r.docsOf(schema.CollectionNameDatatypes) {
		var dd schema.DatatypeDoc
		if decodeInto(d, &dd) == nil && dd.CollectionNum == num && dd.Key == key {
			switch dd.Type {
			case "COUNTER":
				return "counter"
			case "MAP":
				return "map"
			case "LIST":
				return "list"
			case "DOCUMENT":
				return "doc"
			}
			return dd.Type
		}
	}
	return ""
}

func isNilIface(v interface{}) bool {
	switch x := v.(type) {
	case orda.Counter:
		return x == nil
	case orda.Map:
		return x == nil
	case orda.List:
		return x == nil
	case orda.Document:
		return x == nil
	}
	return false
}
