// Package engb is Engine B: the whole system in one testing/synctest bubble — real orda
// clients, the real OrdaService with its real mongo-go-driver talking to the in-process
// MongoDB stand-in over net.Pipe, an MQTT broker stand-in and a transport stand-in for gRPC.
// The simulator goroutine performs one stimulus at a time, waits for quiescence, and chooses
// what happens next from the canonically sorted set of pending things.
package engb

import (
	"errors"
	"sort"
	"strings"
	"sync"
	"time"

	"verif/sim/simmongo"

	mqtt "github.com/eclipse/paho.mqtt.golang"
)

// broker is the MQTT stand-in: per-subscriber FIFO queues, QoS 0.
type broker struct {
	mu      sync.Mutex
	subs    map[string][]*mqttClient // topic → subscribers
	queue   []*mqttDelivery          // pending deliveries in publish order
	pubs    []mqttPublish            // everything ever published (oracle C18)
	nextID  int
	deadPub map[string]bool // publishers (server instances) that have crashed
	// holdPub: a publish of a server instance blocks until the simulator lets it through, so that the
	// notification goroutines of different pushes can overtake each other (Config.HoldPub)
	holdPub bool
	held    []*heldPub
}

// heldPub is a Publish call of a server instance waiting for the simulator.
type heldPub struct {
	owner   string // the request whose background goroutine publishes
	from    string
	topic   string
	payload []byte
	release chan struct{}
}

func (h *heldPub) key() string { return h.owner + "|" + h.topic + "|" + string(h.payload) }

// heldList returns the waiting publishes in canonical order.
func (b *broker) heldList() []*heldPub {
	b.mu.Lock()
	defer b.mu.Unlock()
	out := append([]*heldPub{}, b.held...)
	sort.SliceStable(out, func(i, j int) bool { return out[i].key() < out[j].key() })
	return out
}

// releasePub lets one waiting publish proceed.
func (b *broker) releasePub(h *heldPub) {
	b.mu.Lock()
	for i, x := range b.held {
		if x == h {
			b.held = append(b.held[:i], b.held[i+1:]...)
			break
		}
	}
	b.mu.Unlock()
	close(h.release)
}

type mqttPublish struct {
	From    string
	Topic   string
	Payload []byte
	At      time.Time
}

type mqttDelivery struct {
	id      int
	to      *mqttClient
	topic   string
	payload []byte
	busy    bool
}

func newBroker() *broker {
	return &broker{subs: map[string][]*mqttClient{}, deadPub: map[string]bool{}}
}

type mqttClient struct {
	b         *broker
	name      string
	connected bool
	handlers  map[string]mqtt.MessageHandler
	inflight  bool
	failSubs  int // fault: the next n topic subscriptions fail (broker unreachable at that moment)
	subFailed int
}

func (b *broker) newClient(name string) *mqttClient {
	return &mqttClient{b: b, name: name, handlers: map[string]mqtt.MessageHandler{}}
}

type token struct{ err error }

var errBrokerUnreachable = errors.New("simulated: notification broker unreachable")

func (t *token) Wait() bool                     { return true }
func (t *token) WaitTimeout(time.Duration) bool { return true }
func (t *token) Done() <-chan struct{}          { c := make(chan struct{}); close(c); return c }
func (t *token) Error() error                   { return t.err }

func (c *mqttClient) IsConnected() bool      { return c.connected }
func (c *mqttClient) IsConnectionOpen() bool { return c.connected }
func (c *mqttClient) Connect() mqtt.Token    { c.connected = true; return &token{} }
func (c *mqttClient) Disconnect(uint) {
	c.b.mu.Lock()
	defer c.b.mu.Unlock()
	c.connected = false
	for t, ss := range c.b.subs {
		var keep []*mqttClient
		for _, s := range ss {
			if s != c {
				keep = append(keep, s)
			}
		}
		c.b.subs[t] = keep
	}
	var q []*mqttDelivery
	for _, d := range c.b.queue {
		if d.to != c {
			q = append(q, d)
		}
	}
	c.b.queue = q
}

func (c *mqttClient) Publish(topic string, qos byte, retained bool, payload interface{}) mqtt.Token {
	var p []byte
	switch x := payload.(type) {
	case []byte:
		p = x
	case string:
		p = []byte(x)
	}
	c.b.mu.Lock()
	if c.b.holdPub && strings.HasPrefix(c.name, "server-") && !c.b.deadPub[c.name] {
		// The real client library keeps the caller's slice in the packet and writes it to the connection
		// later, from a goroutine of its own, while the caller waits for the token: the bytes that go out
		// are the ones the slice holds when the simulator lets the publish go.
		h := &heldPub{owner: simmongo.CurrentOwner(), from: c.name, topic: topic, payload: p, release: make(chan struct{})}
		c.b.held = append(c.b.held, h)
		c.b.mu.Unlock()
		<-h.release
		c.b.mu.Lock()
	}
	p = append([]byte{}, p...)
	defer c.b.mu.Unlock()
	if c.b.deadPub[c.name] {
		return &token{}
	}
	c.b.pubs = append(c.b.pubs, mqttPublish{From: c.name, Topic: topic, Payload: p, At: time.Now()})
	for _, s := range c.b.subs[topic] {
		c.b.nextID++
		c.b.queue = append(c.b.queue, &mqttDelivery{id: c.b.nextID, to: s, topic: topic, payload: p})
	}
	return &token{}
}

func (c *mqttClient) Subscribe(topic string, qos byte, cb mqtt.MessageHandler) mqtt.Token {
	c.b.mu.Lock()
	defer c.b.mu.Unlock()
	if c.failSubs > 0 {
		c.failSubs--
		c.subFailed++
		return &token{err: errBrokerUnreachable}
	}
	if _, ok := c.handlers[topic]; !ok {
		c.b.subs[topic] = append(c.b.subs[topic], c)
	}
	c.handlers[topic] = cb
	return &token{}
}

func (c *mqttClient) SubscribeMultiple(map[string]byte, mqtt.MessageHandler) mqtt.Token {
	return &token{}
}
func (c *mqttClient) Unsubscribe(...string) mqtt.Token        { return &token{} }
func (c *mqttClient) AddRoute(string, mqtt.MessageHandler)    {}
func (c *mqttClient) OptionsReader() mqtt.ClientOptionsReader { return mqtt.ClientOptionsReader{} }

type mqttMsg struct {
	topic   string
	payload []byte
}

func (m *mqttMsg) Duplicate() bool   { return false }
func (m *mqttMsg) Qos() byte         { return 0 }
func (m *mqttMsg) Retained() bool    { return false }
func (m *mqttMsg) Topic() string     { return m.topic }
func (m *mqttMsg) MessageID() uint16 { return 0 }
func (m *mqttMsg) Payload() []byte   { return m.payload }
func (m *mqttMsg) Ack()              {}

// deliverable returns, per subscriber, the oldest queued delivery whose subscriber is not busy.
func (b *broker) deliverable() []*mqttDelivery {
	b.mu.Lock()
	defer b.mu.Unlock()
	seen := map[*mqttClient]bool{}
	var out []*mqttDelivery
	for _, d := range b.queue {
		if seen[d.to] {
			continue
		}
		seen[d.to] = true
		if !d.to.inflight {
			out = append(out, d)
		}
	}
	return out
}

// deliver hands one message to its subscriber's callback on a goroutine of its own (the callback
// blocks until the client's notification loop takes the message).
func (b *broker) deliver(d *mqttDelivery, drop bool) {
	b.mu.Lock()
	for i, q := range b.queue {
		if q == d {
			b.queue = append(b.queue[:i], b.queue[i+1:]...)
			break
		}
	}
	cb := d.to.handlers[d.topic]
	if drop || cb == nil || !d.to.connected {
		b.mu.Unlock()
		return
	}
	d.to.inflight = true
	b.mu.Unlock()
	go func() {
		cb(d.to, &mqttMsg{topic: d.topic, payload: d.payload})
		b.mu.Lock()
		d.to.inflight = false
		b.mu.Unlock()
	}()
}
