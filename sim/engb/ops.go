package engb

import (
	"encoding/json"
	"fmt"
	"testing/synctest"

	"github.com/orda-io/orda/client/pkg/model"
	"github.com/orda-io/orda/client/pkg/orda"

	"verif/sim/kernel"
)

type api struct {
	cnt orda.CounterInTx
	mp  orda.MapInTx
	li  orda.ListInTx
	doc orda.DocumentInTx
}

func apiOf(d interface{}) api {
	var a api
	switch x := d.(type) {
	case orda.Counter:
		a.cnt = x
	case orda.Map:
		a.mp = x
	case orda.List:
		a.li = x
	case orda.Document:
		a.doc = x
	}
	return a
}

func clientCUID(a *actor) string {
	for _, c := range a.ep.t.calls {
		if c.client == a.name && c.method == "ProcessClient" {
			return c.decodeReq().(*model.ClientMessage).Cuid
		}
	}
	return ""
}

func mod(a, n int) int {
	if n <= 0 {
		return 0
	}
	a %= n
	if a < 0 {
		a += n
	}
	return a
}

// local performs one local call; positions are interpreted modulo the current size.
func (r *run) local(a *actor, d *dtState, x api, e Ev) {
	var err error
	name := e.Op
	dr := r.dress(e)
	orig := e.V
	e.V = dr.vals
	msg, fp := safely(func() {
		switch {
		case x.cnt != nil:
			_, er := x.cnt.IncreaseBy(e.Delta)
			if er != nil {
				err = er
			}
			name = fmt.Sprintf("IncreaseBy(%d)", e.Delta)
		case x.mp != nil:
			if e.Op == "rm" {
				_, er := x.mp.Remove(e.K)
				if er != nil {
					err = er
				}
			} else if len(e.V) > 0 {
				_, er := x.mp.Put(e.K, e.V[0])
				if er != nil {
					err = er
				}
			}
		case x.li != nil:
			sz := x.li.Size()
			switch e.Op {
			case "del":
				if sz > 0 {
					pos := mod(e.Pos, sz)
					n := 1 + mod(e.N, min(3, sz-pos))
					_, er := x.li.DeleteMany(pos, n)
					if er != nil {
						err = er
					}
				}
			case "upd":
				if sz > 0 && len(e.V) > 0 {
					pos := mod(e.Pos, sz)
					vs := e.V
					if len(vs) > sz-pos {
						vs = vs[:sz-pos]
					}
					_, er := x.li.Update(pos, vs...)
					if er != nil {
						err = er
					}
				}
			default:
				if len(e.V) > 0 {
					_, er := x.li.InsertMany(mod(e.Pos, sz+1), e.V...)
					if er != nil {
						err = er
					}
				}
			}
		case x.doc != nil:
			err = r.docOp(x.doc, e)
		}
	})
	if msg != "" {
		r.fail("nocrash", r.prop+".client-crash", fp, "%s: %s on %s panicked: %s", a.name, name, d.key, msg)
		panic(abortRun{})
	}
	e.V = orig
	if r.on("wire") && msg == "" {
		// The application goes on using its variables: what it passed by pointer changes, and the slice it
		// passed as variadic arguments is refilled for the next call. The replica (and, inside a
		// transaction, the operations waiting to be encoded at commit) must not notice.
		before := ""
		if !r.inTx {
			before = r.viewOf(d)
		}
		for _, poke := range dr.pokes {
			poke()
		}
		for i := range dr.vals {
			dr.vals[i] = "!refilled-argument-slot"
		}
		if len(dr.pokes) > 0 {
			r.probe("pointer-values-poked")
		}
		r.probe("argument-slice-refilled")
		if !r.inTx {
			if after := r.viewOf(d); after != before {
				r.fail("wire", "C14.value-captured", d.kind, "%s: after %s on %s the application changed a variable it had passed by pointer (or refilled the slice it had passed as arguments) and the replica changed with it:\n  before: %s\n  after : %s", a.name, e.Op, d.key, clip(before, 300), clip(after, 300))
			}
		}
	}
	if r.on("wire") && msg == "" && !r.inTx {
		r.checkNativeReads(a, d, x)
	}
	d.nLocal++
	d.nLocalSinceOpen++
	if r.verbose && !r.inTx {
		r.logf("%s %s.%s %s %v -> err=%v view=%s", a.name, d.key, e.Op, e.K, kernel.Canon(e.V), err, clip(r.viewOf(d), 200))
	}
}

func (r *run) docOp(doc orda.DocumentInTx, e Ev) error {
	switch e.Op {
	case "drm":
		_, er := doc.DeleteInObject(e.K)
		if er != nil {
			return er
		}
	case "dins", "ddel", "dupd":
		arr, er := doc.GetFromObject("arr")
		if er != nil || arr == nil || arr.GetTypeOfJSON() != orda.TypeJSONArray {
			_, er2 := doc.PutToObject("arr", []interface{}{})
			if er2 != nil {
				return er2
			}
			if !r.inTx {
				// two library calls in one event: let the delivery goroutine a realtime client starts for the
				// first one reach the transport before the second call is made (otherwise what its pack
				// holds depends on the Go scheduler)
				synctest.Wait()
			}
			arr, er = doc.GetFromObject("arr")
			if er != nil || arr == nil {
				return fmt.Errorf("no arr")
			}
		}
		v, _ := arr.GetValue().([]interface{})
		sz := len(v)
		switch e.Op {
		case "dins":
			if len(e.V) > 0 {
				if _, er := arr.InsertToArray(mod(e.Pos, sz+1), e.V...); er != nil {
					return er
				}
			}
		case "ddel":
			if sz > 0 {
				pos := mod(e.Pos, sz)
				if _, er := arr.DeleteManyInArray(pos, 1+mod(e.N, min(3, sz-pos))); er != nil {
					return er
				}
			}
		case "dupd":
			if sz > 0 && len(e.V) > 0 {
				pos := mod(e.Pos, sz)
				vs := e.V
				if len(vs) > sz-pos {
					vs = vs[:sz-pos]
				}
				if _, er := arr.UpdateManyInArray(pos, vs...); er != nil {
					return er
				}
			}
		}
	default:
		if len(e.V) > 0 {
			if _, er := doc.PutToObject(e.K, e.V[0]); er != nil {
				return er
			}
		}
	}
	return nil
}

type bodyErr struct{}

func (bodyErr) Error() string { return "body says no" }

func (r *run) tx(a *actor, d *dtState, e Ev) {
	r.inTx = true
	defer func() { r.inTx = false }()
	body := func(x api) error {
		for _, b := range e.Body {
			r.local(a, d, x, b)
		}
		if e.Fail {
			return bodyErr{}
		}
		return nil
	}
	tag := e.Tag
	if tag == "" {
		tag = "t"
	}
	msg, fp := safely(func() {
		switch p := d.pub.(type) {
		case orda.Counter:
			_ = p.Transaction(tag, func(c orda.CounterInTx) error { return body(api{cnt: c}) })
		case orda.Map:
			_ = p.Transaction(tag, func(c orda.MapInTx) error { return body(api{mp: c}) })
		case orda.List:
			_ = p.Transaction(tag, func(c orda.ListInTx) error { return body(api{li: c}) })
		case orda.Document:
			_ = p.Transaction(tag, func(c orda.DocumentInTx) error { return body(api{doc: c}) })
		}
	})
	if msg != "" {
		r.fail("nocrash", r.prop+".client-crash", fp, "%s: transaction on %s panicked: %s", a.name, d.key, msg)
		panic(abortRun{})
	}
}

// viewOf is the canonical public view of a datatype object.
func (r *run) viewOf(d *dtState) string {
	var s string
	msg, fp := safely(func() {
		s = kernel.Canon(d.dt.ToJSON())
		switch p := d.pub.(type) {
		case orda.Map:
			s += fmt.Sprintf("|size=%d", p.Size())
		case orda.List:
			s += fmt.Sprintf("|size=%d", p.Size())
		}
	})
	if msg != "" {
		r.fail("nocrash", r.prop+".client-crash", fp, "reading %s panicked: %s", d.key, msg)
		panic(abortRun{})
	}
	return s
}

// flattenOpIDs extracts "cuid#seq" of every operation in what the remote-operation handler received.
func flattenOpIDs(ops []interface{}) []string {
	b, err := json.Marshal(ops)
	if err != nil {
		return []string{"!marshal"}
	}
	var x interface{}
	_ = json.Unmarshal(b, &x)
	var out []string
	var walk func(v interface{})
	walk = func(v interface{}) {
		switch t := v.(type) {
		case []interface{}:
			for _, y := range t {
				walk(y)
			}
		case map[string]interface{}:
			if id, ok := t["ID"].(map[string]interface{}); ok {
				// transaction headers change nothing and are reported in two shapes; skip them
				if ty, ok := t["Type"].(string); ok && ty == "TRANSACTION" {
					return
				}
				if ty, ok := t["Type"].(float64); ok && int(ty) == int(model.TypeOfOperation_TRANSACTION) {
					return
				}
				if cu, ok := id["CUID"].(string); ok {
					out = append(out, fmt.Sprintf("%s#%v", cu, id["Seq"]))
					return
				}
				if cu, ok := id["c"].(string); ok { // raw model.OperationID json (transaction header)
					out = append(out, fmt.Sprintf("%s#%v", cu, id["s"]))
					return
				}
			}
			for _, k := range kernel.SortedKeys(t) {
				walk(t[k])
			}
		}
	}
	walk(x)
	return out
}

// checkNativeReads: typed reads return JSON-native Go values (float64, string, bool, map, slice), whatever
// Go type the application passed in.
func (r *run) checkNativeReads(a *actor, d *dtState, x api) {
	msg, _ := safely(func() {
		switch {
		case x.mp != nil:
			if m, ok := d.dt.ToJSON().(map[string]interface{}); ok {
				if inner, ok := m["Map"].(map[string]interface{}); ok {
					for _, k := range kernel.SortedKeys(inner) {
						if v := x.mp.Get(k); !jsonNative(v) {
							r.fail("wire", "C14.local-value-native", "map", "%s: Get(%q) on %s returns a %T, not a JSON value", a.name, k, d.key, v)
						}
					}
				}
			}
		case x.li != nil:
			for i := 0; i < x.li.Size() && i < 40; i++ {
				v, err := x.li.Get(i)
				if err == nil && !jsonNative(v) {
					r.fail("wire", "C14.local-value-native", "list", "%s: Get(%d) on %s returns a %T, not a JSON value", a.name, i, d.key, v)
				}
			}
		}
	})
	_ = msg
}
