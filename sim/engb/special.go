package engb

// Events of the specialised properties; filled in per property.

func (r *run) restPatch(e Ev)       {}
func (r *run) rogue(e Ev)           {}
func (r *run) resetCollection(e Ev) {}
func (r *run) wireEvent(e Ev)       {}
