package engb

import (
	"encoding/json"
	"fmt"
	"sort"
	"strings"
	"testing/synctest"

	"github.com/orda-io/orda/client/pkg/model"
	"github.com/orda-io/orda/server/schema"
	"go.mongodb.org/mongo-driver/bson"
	"google.golang.org/protobuf/proto"

	"verif/sim/enga"
	"verif/sim/kernel"
	"verif/sim/simmongo"
)

// sendAs issues one RPC as the named pseudo client and drives it to its answer (canonical order,
// no faults). It returns the result; a hang is reported by pump.
func (r *run) sendAs(name, method string, req proto.Message) callResult {
	w := r.w
	ep := &endpoint{t: w.tr, name: name}
	done := make(chan callResult, 1)
	go func() {
		m, err := ep.t.issue(ep.name, method, req)
		done <- callResult{msg: m, err: err}
	}()
	synctest.Wait()
	f := &focus{calls: map[*call]bool{}, owners: map[string]bool{}}
	for _, c := range w.tr.byState("queued") {
		if c.client == name {
			f.calls[c] = true
			f.owners[callOwner(c)] = true
		}
	}
	r.pump(f, nil, nil, false, "")
	synctest.Wait()
	select {
	case res := <-done:
		return res
	default:
		return callResult{err: fmt.Errorf("no answer")}
	}
}

// checkLogStructure: whatever a (mis)behaving client sends and whether it is refused or accepted, the
// stored log of every datatype stays a log: server sequence numbers 1..n, n the recorded end (C06's
// statement, demanded here after every rogue request of a C16 run). Not evaluated once a database
// fault has interrupted a commit in this run: then the recorded end may lag until the next push.
func (r *run) checkLogStructure(mut string, wasRefused bool) {
	if !r.on("refuse") {
		return
	}
	for k, v := range r.res.Faults {
		if (strings.HasPrefix(k, "mongo-") || k == "server-crash") && v > 0 && k != "mongo-slow" && k != "mongo-stall" {
			return
		}
	}
	dts, _ := r.readStore()
	for _, duid := range sortedKeys(dts) {
		di := dts[duid]
		if di.doc.Key == "?orphan" {
			continue
		}
		n := uint64(len(di.ops))
		for i, so := range di.ops {
			if so.doc.Sseq != uint64(i+1) {
				r.fail("refuse", "C16.log-stays-sound", "sseq/"+mut, "after the request mutated by %q (refused=%v) the stored server sequence numbers of %s are %v, expected 1..%d", mut, wasRefused, di.doc.Key, sseqs(di.ops), n)
				return
			}
		}
		if di.doc.Sseq.End != n {
			r.fail("refuse", "C16.log-stays-sound", "end/"+mut, "after the request mutated by %q (refused=%v) the recorded end of the log of %s is %d but %d operations are stored", mut, wasRefused, di.doc.Key, di.doc.Sseq.End, n)
			return
		}
	}
	r.probe("rogue-log-structure-checked")
}

// sendAsFaulty is sendAs with a fault plan for the database commands of the call.
func (r *run) sendAsFaulty(name, method string, req proto.Message, mf []MongoFault) callResult {
	if len(mf) == 0 {
		return r.sendAs(name, method, req)
	}
	w := r.w
	ep := &endpoint{t: w.tr, name: name}
	done := make(chan callResult, 1)
	go func() {
		m, err := ep.t.issue(ep.name, method, req)
		done <- callResult{msg: m, err: err}
	}()
	synctest.Wait()
	f := &focus{calls: map[*call]bool{}, owners: map[string]bool{}}
	for _, c := range w.tr.byState("queued") {
		if c.client == name {
			f.calls[c] = true
			f.owners[callOwner(c)] = true
		}
	}
	r.pump(f, nil, mf, false, "")
	synctest.Wait()
	select {
	case res := <-done:
		return res
	default:
		return callResult{err: fmt.Errorf("no answer")}
	}
}

func refused(res callResult) bool {
	if res.err != nil {
		return true
	}
	if pp, ok := res.msg.(*model.PushPullMessage); ok {
		for _, p := range pp.PushPullPacks {
			if p.GetPushPullPackOption().HasErrorBit() {
				return true
			}
		}
	}
	return false
}

// ---------------------------------------------------------------- C16: rogue client

var rogueMutations = []string{"unknown-duid", "empty-duid", "empty-key", "other-key", "opt-random", "readonly-push", "readonly-create",
	"cp-future", "cp-cseq-future", "cp-zero", "cp-swapped", "cp-nil", "ops-drop-first", "ops-repeat", "ops-reverse", "ops-foreign-cuid",
	"ops-seq0", "ops-nil-id", "wrong-type", "unknown-collection", "unregistered-cuid", "admin-cuid", "empty-cuid", "no-packs",
	"client-admin", "client-unknown-collection", "client-empty-cuid", "patch-unknown-collection", "patch-bad-json", "patch-array-json",
	"patch-non-document", "collection-empty-name", "reset-unknown", "foreign-duid", "other-collection", "client-other-collection", "used-duid", "dup-pack", "dup-pack"}

func (r *run) baseRequest(i int, needOps bool) *model.PushPullMessage {
	var cands []*call
	for _, c := range r.w.tr.calls {
		if c.method != "ProcessPushPull" || !r.mon.honest[c.client] || c.state != "finished" {
			continue
		}
		req, _ := c.decodeReq().(*model.PushPullMessage)
		if req == nil || len(req.PushPullPacks) == 0 {
			continue
		}
		if needOps {
			n := 0
			for _, p := range req.PushPullPacks {
				n += len(p.Operations)
			}
			if n == 0 {
				continue
			}
		}
		cands = append(cands, c)
	}
	if len(cands) == 0 {
		return nil
	}
	return cands[mod(i, len(cands))].decodeReq().(*model.PushPullMessage)
}

func (r *run) rogue(e Ev) {
	g := kernel.NewRng(e.S + 99)
	mut := e.Mode
	if mut == "" {
		mut = rogueMutations[g.Intn(len(rogueMutations))]
	}
	needOps := strings.HasPrefix(mut, "ops-") || mut == "readonly-push"
	var rogueMF []MongoFault
	var usedKey, usedBefore string
	var usedNum int32
	var method string
	var req proto.Message
	switch {
	case strings.HasPrefix(mut, "client-"):
		a := r.actor(e.A)
		m := &model.ClientMessage{Header: model.NewMessageHeader(model.RequestType_CLIENTS), Collection: a.collection, Cuid: a.cuid, ClientAlias: a.name, SyncType: model.SyncType_MANUALLY}
		switch mut {
		case "client-admin":
			m.Cuid = "!@#$OrdaPatchAPI"
		case "client-unknown-collection":
			m.Collection = "nope"
		case "client-empty-cuid":
			m.Cuid = ""
		case "client-other-collection":
			m.Collection = r.otherCollection(a.collection)
			registered := false
			for _, d := range r.docsOf(schema.CollectionNameClients) {
				if id, _ := get(d, "_id"); id == a.cuid {
					registered = true
				}
			}
			if !registered {
				return // its collection was reset: registering elsewhere is a fresh registration
			}
		}
		method, req = "ProcessClient", m
		if mut == "client-other-collection" && g.Chance(1, 2) {
			// the database fails while the server looks the client up: that must not turn the request
			// into the registration of a new client
			rogueMF = []MongoFault{{At: 1 + g.Intn(3), Kind: "errBefore"}}
		}
	case strings.HasPrefix(mut, "patch-"):
		a := r.actor(e.A)
		m := &model.PatchMessage{Collection: a.collection, Key: "pk", Json: `{"a":1}`}
		switch mut {
		case "patch-unknown-collection":
			m.Collection = "nope"
		case "patch-bad-json":
			m.Json = `{"a":`
		case "patch-array-json":
			m.Json = `[1,2]`
		case "patch-non-document":
			for _, d := range a.dts {
				if d.kind != "doc" {
					m.Key = d.key
				}
			}
		}
		method, req = "PatchDocument", m
	case mut == "collection-empty-name":
		method, req = "CreateCollection", &model.CollectionMessage{Collection: ""}
	case mut == "reset-unknown":
		method, req = "ResetCollection", &model.CollectionMessage{Collection: "nope"}
	default:
		base := r.baseRequest(e.A, needOps)
		if base == nil {
			return
		}
		// the client builds its packs while ranging over a Go map: pick by key, not by position
		sort.SliceStable(base.PushPullPacks, func(i, j int) bool { return base.PushPullPacks[i].Key < base.PushPullPacks[j].Key })
		p := base.PushPullPacks[g.Intn(len(base.PushPullPacks))]
		if needOps {
			for _, q := range base.PushPullPacks {
				if len(q.Operations) > 0 {
					p = q
				}
			}
		}
		base.PushPullPacks = []*model.PushPullPack{p}
		switch mut {
		case "unknown-duid":
			p.DUID = g.UID()
		case "empty-duid":
			p.DUID = ""
		case "empty-key":
			p.Key = ""
		case "other-key":
			p.Key = "zz"
		case "opt-random":
			p.Option = uint32(g.Intn(128))
		case "readonly-push":
			p.Option |= uint32(model.PushPullBitReadOnly)
		case "readonly-create":
			p.Option = uint32(model.PushPullBitReadOnly | model.PushPullBitCreate)
			p.Key = "rokey"
			p.DUID = g.UID()
		case "cp-future":
			p.CheckPoint.Sseq += 1000
		case "cp-cseq-future":
			p.CheckPoint.Cseq += 1000
		case "cp-zero":
			p.CheckPoint = model.NewCheckPoint()
		case "cp-swapped":
			p.CheckPoint.Sseq, p.CheckPoint.Cseq = p.CheckPoint.Cseq, p.CheckPoint.Sseq
		case "cp-nil":
			p.CheckPoint = nil
		case "ops-drop-first":
			p.Operations = p.Operations[1:]
			if len(p.Operations) == 0 {
				return
			}
			p.CheckPoint.Cseq += 5
			for _, op := range p.Operations {
				op.ID.Seq += 5
			}
		case "ops-repeat":
			p.Operations = append(p.Operations, p.Operations...)
		case "ops-reverse":
			for i, j := 0, len(p.Operations)-1; i < j; i, j = i+1, j-1 {
				p.Operations[i], p.Operations[j] = p.Operations[j], p.Operations[i]
			}
		case "ops-foreign-cuid":
			for _, op := range p.Operations {
				op.ID.CUID = g.UID()
			}
		case "ops-seq0":
			for _, op := range p.Operations {
				op.ID.Seq = 0
			}
		case "ops-nil-id":
			p.Operations[0].ID = nil
		case "wrong-type":
			p.Type = model.TypeOfDatatype((int(p.Type) + 1) % 4)
		case "unknown-collection":
			base.Collection = "nope"
		case "other-collection":
			base.Collection = r.otherCollection(base.Collection)
		case "foreign-duid":
			fd := r.foreignDUID(base.Collection, g)
			if fd == "" {
				return
			}
			p.DUID = fd
			// the id can arrive with any shape of request: as it was, pull-only, marked read-only
			switch g.Intn(4) {
			case 1:
				p.Operations = nil
				p.Option = uint32(model.PushPullBitNormal)
			case 2:
				p.Operations = nil
				p.Option = uint32(model.PushPullBitReadOnly)
			case 3:
				p.Option |= uint32(model.PushPullBitReadOnly)
			}
			if len(p.Operations) == 0 && p.CheckPoint != nil {
				p.CheckPoint = &model.CheckPoint{Sseq: 0, Cseq: 0}
			}
		case "used-duid":
			// An entry request (create / subscribe / both) for a fresh key that carries the id of a
			// datatype living under ANOTHER key of the same collection, from a registered client that never
			// touched that datatype, with the operations a creating client sends (a snapshot operation, seq 1).
			dts, _ := r.readStore()
			num := r.collNum(base.Collection)
			var cands []string
			for _, duid := range sortedKeys(dts) {
				// a datatype under another key of the same collection, or (several collections) of another collection
				if di := dts[duid]; di.doc.Key != "?orphan" && len(di.ops) > 0 {
					cands = append(cands, duid)
				}
			}
			if len(cands) == 0 {
				return
			}
			x := dts[cands[g.Intn(len(cands))]]
			if x.doc.CollectionNum != num {
				r.probe("rogue-used-duid-foreign-collection")
			}
			cuid := g.UID()
			reg := r.sendAs("rogue", "ProcessClient", &model.ClientMessage{Header: model.NewMessageHeader(model.RequestType_CLIENTS), Collection: base.Collection, Cuid: cuid, ClientAlias: "rogue", SyncType: model.SyncType_MANUALLY})
			if reg.err != nil {
				return
			}
			base.Cuid = cuid
			p.Key = fmt.Sprintf("uk%d", g.Intn(3))
			p.DUID = x.doc.DUID
			p.Type = kindOfType(x.doc.Type)
			p.CheckPoint = &model.CheckPoint{Sseq: 0, Cseq: 0}
			p.Option = uint32([]model.PushPullPackOption{model.PushPullBitCreate, model.PushPullBitSubscribe, model.PushPullBitCreate | model.PushPullBitSubscribe}[g.Intn(3)])
			p.Operations = nil
			if p.Option&uint32(model.PushPullBitCreate) != 0 {
				op := cloneOp(x.ops[0].op)
				op.ID = &model.OperationID{Era: 0, Lamport: 1, CUID: cuid, Seq: 1}
				p.Operations = []*model.Operation{op}
				p.CheckPoint.Cseq = 0
			}
			usedKey, usedNum = x.doc.Key, x.doc.CollectionNum
			usedBefore = r.partition(usedNum, usedKey)
		case "unregistered-cuid":
			base.Cuid = g.UID()
		case "admin-cuid":
			base.Cuid = "!@#$OrdaPatchAPI"
		case "empty-cuid":
			base.Cuid = ""
		case "no-packs":
			base.PushPullPacks = nil
		case "dup-pack":
			// the same pack twice in one message (two packs for one key): answered like any other request
			q := proto.Clone(p).(*model.PushPullPack)
			base.PushPullPacks = []*model.PushPullPack{p, q}
		}
		method, req = "ProcessPushPull", base
	}
	before := r.committedDigest()
	foreignBefore := map[string]string{}
	foreignDUID := ""
	if pp, ok := req.(*model.PushPullMessage); ok && (mut == "foreign-duid" || mut == "other-collection") {
		if mut == "foreign-duid" && len(pp.PushPullPacks) > 0 {
			foreignDUID = pp.PushPullPacks[0].DUID
		}
		for n, k := range r.collNums() {
			foreignBefore[n] = r.collPartition(n, k)
		}
	}
	r.probe("rogue-sent")
	r.probe("rogue-" + mut)
	if len(e.MF) > 0 {
		rogueMF = e.MF // scenarios place the fault themselves
	}
	res := r.sendAsFaulty("rogue", method, req, rogueMF)
	r.logf("rogue %s %s -> err=%v refused=%v", method, mut, res.err, refused(res))
	if r.cfg.Observe {
		out := "accepted"
		if res.err != nil && res.err.Error() == "no answer" {
			out = "no-answer"
		} else if refused(res) {
			out = "refused"
		}
		r.rogueLog = append(r.rogueLog, mut+"="+out)
	}
	r.trace.Str("rogue").Str(mut)
	if res.err != nil && res.err.Error() == "no answer" {
		r.fail("answered", r.prop+".answered", "no-answer/"+mut, "the mutated request (%s, %s) got no answer", method, mut)
		return
	}
	after := r.committedDigest()
	r.checkLogStructure(mut, refused(res))
	if usedKey != "" {
		r.probe("rogue-used-duid-sent")
		if now := r.partition(usedNum, usedKey); now != usedBefore {
			r.fail("iso", "C17.same-key-independent", "used-duid/changed", "an entry request for another key that carried the id of the datatype under %s (refused=%v, %s) changed what is stored for %s:\n%s", usedKey, refused(res), errText(res), usedKey, diffText(usedBefore, now))
		}
	}
	if refused(res) {
		r.probe("rogue-refused")
		if before != after {
			r.fail("refuse", "C16.refused-changes-nothing", mut, "the request mutated by %q was refused (%v) but changed stored data:\n%s", mut, errText(res), diffText(before, after))
			r.fail("iso", "C17.foreign-refused", mut+"/changed", "the request mutated by %q was refused (%v) but changed stored data:\n%s", mut, errText(res), diffText(before, after))
		}
	} else {
		r.probe("rogue-accepted")
		if mut == "other-collection" || mut == "client-other-collection" {
			r.fail("iso", "C17.foreign-refused", mut+"/accepted", "a client registered in one collection sent a request (%s) that names another collection and it was not refused:\n%s", mut, diffText(before, after))
		}
		if mut == "foreign-duid" {
			// the id may be ignored (the key decides), but nothing of the foreign collection may be
			// returned or changed
			pp, _ := req.(*model.PushPullMessage)
			own := r.collNum(pp.GetCollection())
			for n, k := range r.collNums() {
				if k != own && foreignBefore[n] != "" && r.collPartition(n, k) != foreignBefore[n] {
					r.fail("iso", "C17.foreign-refused", "foreign-duid/changed", "a request carrying the id of a datatype of collection %s changed that collection:\n%s", n, diffText(foreignBefore[n], r.collPartition(n, k)))
				}
			}
			if resp, ok := res.msg.(*model.PushPullMessage); ok {
				for _, p := range resp.PushPullPacks {
					if p.DUID == foreignDUID && len(p.Operations) > 0 {
						r.fail("iso", "C17.foreign-refused", "foreign-duid/read", "a request carrying the id of a datatype of another collection was answered with %d of its operations", len(p.Operations))
					}
				}
			}
		}
	}
}

func errText(res callResult) string {
	if res.err != nil {
		return res.err.Error()
	}
	if pp, ok := res.msg.(*model.PushPullMessage); ok {
		for _, p := range pp.PushPullPacks {
			if p.GetPushPullPackOption().HasErrorBit() && len(p.Operations) > 0 {
				return "error pack: " + string(p.Operations[0].Body)
			}
		}
	}
	return "refused"
}

func diffText(a, b string) string {
	al, bl := strings.Split(a, "\n"), strings.Split(b, "\n")
	am, bm := map[string]bool{}, map[string]bool{}
	for _, l := range al {
		am[l] = true
	}
	for _, l := range bl {
		bm[l] = true
	}
	var sb strings.Builder
	n := 0
	for _, l := range al {
		if !bm[l] && n < 6 {
			sb.WriteString("  - " + clip(l, 300) + "\n")
			n++
		}
	}
	for _, l := range bl {
		if !am[l] && n < 12 {
			sb.WriteString("  + " + clip(l, 300) + "\n")
			n++
		}
	}
	return sb.String()
}

func (r *run) otherCollection(c string) string {
	for _, x := range r.colls {
		if x != c {
			return x
		}
	}
	return "nope"
}

// foreignDUID returns the id of a datatype stored in another collection than the given one.
func (r *run) foreignDUID(coll string, g *kernel.Rng) string {
	n := r.collNum(coll)
	dts, _ := r.readStore()
	var cands []string
	for _, duid := range sortedKeys(dts) {
		if dts[duid].doc.CollectionNum != n && dts[duid].doc.Key != "?orphan" {
			cands = append(cands, duid)
		}
	}
	if len(cands) == 0 {
		return ""
	}
	return cands[g.Intn(len(cands))]
}

// ---------------------------------------------------------------- C17: collections

// collPartition renders everything stored for one collection number (and its user collection).
func (r *run) collPartition(name string, num int32) string {
	var sb strings.Builder
	skip := func(k string) bool { return k == "createdAt" || k == "updatedAt" || k == "at" }
	for _, cn := range []string{schema.CollectionNameDatatypes, schema.CollectionNameOperations, schema.CollectionNameSnapshot, schema.CollectionNameClients} {
		var lines []string
		for _, d := range r.docsOf(cn) {
			v, _ := get(d, "colNum")
			if toInt(v) != int64(num) {
				continue
			}
			var f bson.D
			for _, e := range d {
				if !skip(e.Key) {
					f = append(f, e)
				}
			}
			lines = append(lines, canonBSON(f))
		}
		sortStrings(lines)
		fmt.Fprintf(&sb, "%s:%d\n%s\n", cn, len(lines), strings.Join(lines, "\n"))
	}
	var lines []string
	for _, d := range r.docsOf(name) {
		lines = append(lines, canonBSON(d))
	}
	sortStrings(lines)
	fmt.Fprintf(&sb, "user:%d\n%s\n", len(lines), strings.Join(lines, "\n"))
	return sb.String()
}

func sortStrings(s []string) {
	for i := 1; i < len(s); i++ {
		for j := i; j > 0 && s[j] < s[j-1]; j-- {
			s[j], s[j-1] = s[j-1], s[j]
		}
	}
}

func (r *run) collNums() map[string]int32 {
	out := map[string]int32{}
	for _, d := range r.docsOf(schema.CollectionNameCollections) {
		var cd schema.CollectionDoc
		if decodeInto(d, &cd) == nil {
			out[cd.Name] = cd.Num
		}
	}
	return out
}

func (r *run) resetCollection(e Ev) {
	name := r.colls[mod(e.A, len(r.colls))]
	nums := r.collNums()
	num := nums[name]
	others := map[string]string{}
	for n, k := range nums {
		if n != name {
			others[n] = r.collPartition(n, k)
		}
	}
	r.probe("reset")
	faultsBefore := r.res.Faults["mongo-"+simmongo.FaultErrBefore] + r.res.Faults["mongo-"+simmongo.FaultErrAfter]
	res := r.sendAsFaulty("admin", "ResetCollection", &model.CollectionMessage{Collection: name}, e.MF)
	r.logf("reset collection %s(%d) -> %v", name, num, res.err)
	if res.err != nil && r.res.Faults["mongo-"+simmongo.FaultErrBefore]+r.res.Faults["mongo-"+simmongo.FaultErrAfter] > faultsBefore {
		// the database failed during the reset: the caller was told, and tries again
		r.probe("reset-failed-under-fault")
		res = r.sendAs("admin", "ResetCollection", &model.CollectionMessage{Collection: name})
		r.logf("reset collection %s(%d) again -> %v", name, num, res.err)
	}
	if res.err != nil {
		r.fail("iso", "C17.reset-exact", "reset-failed", "ResetCollection(%s) failed: %v", name, res.err)
		return
	}
	// nothing with the old number may remain
	for _, cn := range []string{schema.CollectionNameDatatypes, schema.CollectionNameOperations, schema.CollectionNameSnapshot, schema.CollectionNameClients} {
		for _, d := range r.docsOf(cn) {
			v, _ := get(d, "colNum")
			if toInt(v) == int64(num) && r.collNums()[name] != num {
				r.fail("iso", "C17.reset-exact", "leftover/"+cn, "after ResetCollection(%s) a document of its old number %d remains in %s: %s", name, num, cn, clip(canonBSON(d), 300))
			}
			if toInt(v) == int64(num) && r.collNums()[name] == num {
				r.fail("iso", "C17.reset-exact", "not-removed/"+cn, "after ResetCollection(%s) a document of the collection remains in %s: %s", name, cn, clip(canonBSON(d), 300))
			}
		}
	}
	if n := len(r.docsOf(name)); n != 0 {
		r.fail("iso", "C17.reset-exact", "user-documents-remain", "after ResetCollection(%s) its user collection still holds %d documents", name, n)
	}
	nums2 := r.collNums()
	for n, k := range nums {
		if n == name {
			continue
		}
		if nums2[n] != k {
			r.fail("iso", "C17.reset-exact", "other-collection-renumbered", "ResetCollection(%s) changed the number of %s from %d to %d", name, n, k, nums2[n])
		}
		if p := r.collPartition(n, k); p != others[n] {
			r.fail("iso", "C17.reset-exact", "other-collection-changed", "ResetCollection(%s) changed documents of collection %s:\n%s", name, n, diffText(others[n], p))
		}
	}
	// clients of the reset collection are gone: they have to register again
	for _, a := range r.w.actors {
		if a.collection == name {
			a.connected = false
			a.gone = true
		}
	}
}

// parCollection: two callers create the same new collection at the same moment, their database commands
// interleaved by the event's seeded choice, and the database sits on one write of each for a while.
// As soon as one of them is through - the collection exists - an application starts to use it: a new
// client registers, creates a datatype and pushes. Then the other creator's write arrives.
// Demanded: both calls are answered; the name has one document; the number the collection had when
// the first client registered is the number it keeps (only ResetCollection hands out a new one).
func (r *run) parCollection(e Ev) {
	w := r.w
	name := fmt.Sprintf("late%d", len(r.colls)+1)
	g := kernel.NewRng(e.S + 99)
	names := []string{"admin-a", "admin-b"}
	dones := make([]chan callResult, 2)
	for i := range names {
		i := i
		dones[i] = make(chan callResult, 1)
		ep := &endpoint{t: w.tr, name: names[i]}
		go func() {
			m, err := ep.t.issue(ep.name, "CreateCollection", &model.CollectionMessage{Collection: name})
			dones[i] <- callResult{msg: m, err: err}
		}()
		synctest.Wait()
	}
	f := &focus{calls: map[*call]bool{}, owners: map[string]bool{}}
	for _, c := range w.tr.byState("queued") {
		if c.client == names[0] || c.client == names[1] {
			f.calls[c] = true
			f.owners[callOwner(c)] = true
		}
	}
	r.probe("collection-created-twice-at-once")
	var firstNum int32
	r.whileStalled = func() bool {
		firstNum = r.collNum(name)
		if firstNum == 0 {
			return false // nobody is through yet
		}
		r.probe("client-joins-between-two-creators")
		r.logf("  collection %s exists (number %d) while the other creator's write is still with the database: a client starts to use it", name, firstNum)
		a := w.newActor(name, false)
		r.mon.honest[a.name] = true
		wasAuto := w.mongo.Auto
		w.mongo.Auto = true
		r.connect(a)
		w.mongo.Auto = wasAuto
		r.open(a, Ev{T: "open", A: a.idx, K: "k1", Kind: "counter", Mode: "create"})
		if d := a.dt(0); d != nil {
			r.local(a, d, apiOf(d.pub), Ev{T: "local", A: a.idx, Op: "inc", Delta: 7})
		}
		cur := r.cur
		r.syncEvent([]*actor{a}, Ev{T: "sync", A: a.idx})
		r.cur = cur
		return true
	}
	mf := []MongoFault{{At: 2 + g.Intn(2), Kind: "stall"}}
	r.pump(f, g, mf, false, "")
	r.whileStalled = nil
	synctest.Wait()
	for i := range names {
		select {
		case res := <-dones[i]:
			r.logf("CreateCollection(%s) by %s -> err=%v", name, names[i], res.err)
		default:
			r.fail("answered", r.prop+".answered", "no-answer/create-collection", "CreateCollection(%s) sent together with another one for the same name got no answer", name)
		}
	}
	n := 0
	for _, d := range r.docsOf(schema.CollectionNameCollections) {
		var cd schema.CollectionDoc
		if decodeInto(d, &cd) == nil && cd.Name == name {
			n++
		}
	}
	if n > 1 {
		r.fail("iso", "C17.one-collection-per-name", "two-documents", "after two simultaneous CreateCollection(%s) calls the name has %d collection documents", name, n)
	}
	if n == 1 {
		r.colls = append(r.colls, name)
	}
	if now := r.collNum(name); firstNum != 0 && now != firstNum {
		r.fail("iso", "C17.collection-number-stable", "renumbered-by-second-creator", "collection %s had number %d when its first client registered and created a datatype; the second of two simultaneous CreateCollection calls changed it to %d: everything stored under %d belongs to no collection any more", name, firstNum, now, firstNum)
	}
}

// ghostSync: a client whose registration was removed by ResetCollection goes on as if nothing had
// happened. "Resetting a collection removes ... clients": it is a stranger now, its request is
// refused and changes nothing.
func (r *run) ghostSync(a *actor) {
	w := r.w
	a.mu.Lock()
	busy := a.syncing > 0
	a.mu.Unlock()
	if busy || len(a.dts) == 0 {
		return
	}
	// somebody may have registered the same id again meanwhile (rogue client-* mutations): then it is no stranger
	for _, d := range r.docsOf(schema.CollectionNameClients) {
		if id, _ := get(d, "_id"); id == a.cuid {
			return
		}
	}
	before := r.committedDigest()
	ncalls := len(w.tr.calls)
	a.connected = true
	ok := r.startSync(a)
	a.connected = false
	if !ok {
		return
	}
	synctest.Wait()
	f := &focus{calls: map[*call]bool{}, owners: map[string]bool{}}
	var mine []*call
	for _, c := range w.tr.calls[ncalls:] {
		if c.client == a.name {
			f.calls[c] = true
			f.owners[callOwner(c)] = true
			mine = append(mine, c)
		}
	}
	r.pump(f, nil, nil, false, "")
	synctest.Wait()
	r.probe("purged-client-sync")
	for _, c := range mine {
		if c.resp == nil {
			continue
		}
		if !refused(*c.resp) {
			r.fail("iso", "C17.reset-exact", "purged-client-accepted", "%s was registered in %s, the collection was reset (its registration removed), and its next push-pull was accepted as if it were still registered", a.name, a.collection)
		}
	}
	if after := r.committedDigest(); after != before {
		r.fail("iso", "C17.reset-exact", "purged-client-changed-store", "the push-pull of %s, whose registration was removed by ResetCollection(%s), changed stored data:\n%s", a.name, a.collection, diffText(before, after))
	}
	r.checkClientCrash()
}

// checkIsolation: collection numbers are distinct (C17.distinct-numbers).
func (m *monitors) checkIsolation(r *run, dts map[string]*dtInfo) {
	seen := map[int32]string{}
	for _, d := range r.docsOf(schema.CollectionNameCollections) {
		var cd schema.CollectionDoc
		if decodeInto(d, &cd) != nil {
			continue
		}
		if other, ok := seen[cd.Num]; ok {
			r.fail("iso", "C17.distinct-numbers", "shared-number", "collections %s and %s share number %d", other, cd.Name, cd.Num)
		}
		seen[cd.Num] = cd.Name
	}
}

// ---------------------------------------------------------------- C19: REST patch

func (r *run) restPatch(e Ev) {
	a := r.actor(e.A)
	key := e.K
	if key == "" {
		key = "k1"
	}
	g := kernel.NewRng(e.S + 7)
	target := e.Json
	if target == "" {
		target = kernel.Canon(enga.GenObject(g, 0, 3))
	}
	colNum := r.collNum(a.collection)
	var existing *dtInfo
	dts, _ := r.readStore()
	for _, duid := range sortedKeys(dts) {
		if dts[duid].doc.CollectionNum == colNum && dts[duid].doc.Key == key {
			existing = dts[duid]
		}
	}
	if e.Json == "" && existing != nil && existing.doc.Type == model.TypeOfDatatype_DOCUMENT.String() && g.Chance(3, 4) {
		// a target close to what is stored: most entries stay as they are, so that the patch is a real
		// edit script on the stored state and not a replacement of everything
		n := existing.doc.Sseq.End
		if n > uint64(len(existing.ops)) {
			n = uint64(len(existing.ops))
		}
		if dt, errS := r.replay(existing, n); errS == "" {
			var cur interface{}
			if json.Unmarshal([]byte(kernel.Canon(dt.ToJSON())), &cur) == nil {
				if m, ok := enga.MutateJSON(g, cur, 0).(map[string]interface{}); ok {
					target = kernel.Canon(m)
					r.probe("rest-patch-near-target")
				}
			}
		}
	}
	before := r.committedDigest()
	r.probe("rest-patch")
	res := r.sendAs("rest", "PatchDocument", &model.PatchMessage{Collection: a.collection, Key: key, Json: target})
	r.logf("REST patch %s/%s -> %s : err=%v", a.collection, key, clip(target, 200), res.err)
	r.noteRest("rest", res)
	if existing != nil && existing.doc.Type != model.TypeOfDatatype_DOCUMENT.String() {
		if res.err == nil {
			r.fail("rest", "C19.rest-refuses-non-document", "accepted", "PatchDocument on %s, which holds a %s, was accepted", key, existing.doc.Type)
		} else if r.committedDigest() != before {
			r.fail("rest", "C19.rest-refuses-non-document", "changed", "PatchDocument on a %s was refused but changed stored data", existing.doc.Type)
		}
		return
	}
	if res.err != nil {
		r.fail("rest", "C19.rest-response-equals-target", "refused", "PatchDocument(%s/%s, %s) failed: %v", a.collection, key, clip(target, 300), res.err)
		return
	}
	pm, _ := res.msg.(*model.PatchMessage)
	if pm == nil {
		return
	}
	if got := kernel.CanonBytes([]byte(pm.Json)); got != kernel.CanonBytes([]byte(target)) {
		r.fail("rest", "C19.rest-response-equals-target", "response-differs", "PatchDocument(%s/%s) answered a document that is not the target:\n  target  : %s\n  response: %s", a.collection, key, clip(target, 400), clip(got, 400))
	}
	// the operations were appended: replaying the stored log gives the target
	dts, _ = r.readStore()
	found := false
	for _, duid := range sortedKeys(dts) {
		di := dts[duid]
		if di.doc.CollectionNum != colNum || di.doc.Key != key {
			continue
		}
		found = true
		// the log is what lies below the recorded end; operations beyond it belong to a commit that a
		// database fault interrupted (the pusher's retry removes and re-appends them, after the patch)
		upTo := uint64(len(di.ops))
		if di.doc.Sseq.End < upTo {
			upTo = di.doc.Sseq.End
		}
		dt, errS := r.replay(di, upTo)
		if errS != "" {
			r.fail("rest", "C19.rest-ops-appended", "replay-error", "after the REST patch the stored log of %s cannot be replayed: %s", key, errS)
			continue
		}
		if got := kernel.Canon(dt.ToJSON()); got != kernel.CanonBytes([]byte(target)) {
			r.fail("rest", "C19.rest-ops-appended", "log-differs", "after the REST patch a replay of the stored log of %s is not the target:\n  target: %s\n  replay: %s", key, clip(target, 400), clip(got, 400))
		}
	}
	if !found {
		r.fail("rest", "C19.rest-ops-appended", "no-datatype", "PatchDocument(%s/%s) succeeded but no datatype is stored", a.collection, key)
	}
}

// patchSync: a REST patch of a document and the Sync of a client that has just changed the same document
// are sent at the same moment; their database commands interleave by the seeded choice. Afterwards
// the usual monitors run (C11: the user document is the JSON view of a log prefix at its recorded
// version; C19: the answer of the patch is its target).
func (r *run) patchSync(e Ev) {
	w := r.w
	a := r.actor(e.A)
	if !a.connected || a.realtime {
		return
	}
	a.mu.Lock()
	busy := a.syncing > 0
	a.mu.Unlock()
	if busy {
		return
	}
	var d *dtState
	for _, x := range a.dts {
		if x.kind == "doc" && x.dt.GetState() == model.StateOfDatatype_SUBSCRIBED {
			d = x
		}
	}
	if d == nil {
		return
	}
	g := kernel.NewRng(e.S + 777)
	r.local(a, d, apiOf(d.pub), Ev{T: "local", A: e.A, Op: "dput", K: "note", V: []interface{}{fmt.Sprintf("n%d", g.Intn(1000))}})
	target := kernel.Canon(map[string]interface{}{"patched": float64(g.Intn(100)), "title": "t"})
	if !r.startSync(a) {
		return
	}
	synctest.Wait()
	done := make(chan callResult, 1)
	ep := &endpoint{t: w.tr, name: "rest-p"}
	req := &model.PatchMessage{Collection: a.collection, Key: d.key, Json: target}
	go func() {
		m, err := ep.t.issue(ep.name, "PatchDocument", req)
		done <- callResult{msg: m, err: err}
	}()
	synctest.Wait()
	f := &focus{calls: map[*call]bool{}, owners: map[string]bool{}}
	for _, c := range w.tr.byState("queued") {
		if c.client == a.name || c.client == "rest-p" {
			f.calls[c] = true
			f.owners[callOwner(c)] = true
		}
	}
	r.probe("rest-patch")
	r.probe("rest-patch-with-sync")
	r.pump(f, g, nil, false, "")
	synctest.Wait()
	select {
	case res := <-done:
		r.noteRest("rest-p", res)
		if res.err == nil {
			pm, _ := res.msg.(*model.PatchMessage)
			if pm == nil || kernel.CanonBytes([]byte(pm.Json)) != target {
				got := ""
				if pm != nil {
					got = pm.Json
				}
				r.fail("rest", "C19.rest-response-equals-target", "with-sync/response-differs", "PatchDocument(%s/%s) sent together with a client's push was answered without error, but not with its target:\n  target  : %s\n  response: %q", a.collection, d.key, target, got)
			}
		}
	default:
		r.fail("answered", r.prop+".answered", "no-answer/patchsync", "PatchDocument(%s/%s) sent together with a client's push got no answer", a.collection, d.key)
	}
	r.checkClientCrash()
}

// noteRest keeps the outcome of a REST call for the observations of scenario runs.
func (r *run) noteRest(who string, res callResult) {
	if !r.cfg.Observe {
		return
	}
	out := "error"
	if res.err == nil {
		out = "ok:"
		if pm, _ := res.msg.(*model.PatchMessage); pm != nil {
			out += pm.Json
		}
	}
	r.restLog = append(r.restLog, who+"="+out)
}

// parPatch: two REST patches of the same key are sent at the same moment; the database is slow on one
// command of whichever holds the key, so the other one may run out of patience at the key's lock.
// Whatever happens to each: it is answered, and an answer that is not an error carries its target.
func (r *run) parPatch(e Ev) {
	w := r.w
	a := r.actor(e.A)
	key := e.K
	if key == "" {
		key = "restkey"
	}
	g := kernel.NewRng(e.S + 4242)
	colNum := r.collNum(a.collection)
	dts, _ := r.readStore()
	for _, duid := range sortedKeys(dts) {
		if di := dts[duid]; di.doc.CollectionNum == colNum && di.doc.Key == key && di.doc.Type != model.TypeOfDatatype_DOCUMENT.String() {
			return // not a document: covered by restPatch
		}
	}
	targets := []string{
		kernel.Canon(map[string]interface{}{"who": "first", "n": float64(g.Intn(100))}),
		kernel.Canon(map[string]interface{}{"who": "second", "list": []interface{}{float64(g.Intn(9)), "x"}}),
	}
	names := []string{"rest-a", "rest-b"}
	dones := make([]chan callResult, 2)
	for i := range names {
		i := i
		dones[i] = make(chan callResult, 1)
		ep := &endpoint{t: w.tr, name: names[i]}
		req := &model.PatchMessage{Collection: a.collection, Key: key, Json: targets[i]}
		go func() {
			m, err := ep.t.issue(ep.name, "PatchDocument", req)
			dones[i] <- callResult{msg: m, err: err}
		}()
		synctest.Wait()
	}
	f := &focus{calls: map[*call]bool{}, owners: map[string]bool{}}
	for _, c := range w.tr.byState("queued") {
		if c.client == names[0] || c.client == names[1] {
			f.calls[c] = true
			f.owners[callOwner(c)] = true
		}
	}
	r.probe("rest-patch-pair")
	r.probe("rest-patch")
	mf := []MongoFault{{At: 2 + g.Intn(6), Kind: []string{"stall", "slow", "stall"}[g.Intn(3)]}}
	if e.Op == "nofault" {
		mf = nil // scenarios: the database is not slow, the second patch just waits for the first
	}
	r.pump(f, g, mf, false, "")
	synctest.Wait()
	for i := range names {
		var res callResult
		select {
		case res = <-dones[i]:
		default:
			r.fail("answered", r.prop+".answered", "no-answer/parpatch", "PatchDocument(%s/%s) sent together with another patch of the same key got no answer", a.collection, key)
			continue
		}
		r.logf("REST patch %s of %s/%s -> err=%v", names[i], a.collection, key, res.err)
		r.noteRest(names[i], res)
		if res.err != nil {
			r.probe("rest-patch-pair-refused")
			continue // "key busy" (or any other error) is an answer
		}
		pm, _ := res.msg.(*model.PatchMessage)
		got := ""
		if pm != nil {
			got = pm.Json
		}
		if got == "" || kernel.CanonBytes([]byte(got)) != targets[i] {
			r.fail("rest", "C19.rest-response-equals-target", "concurrent/response-differs", "PatchDocument(%s/%s) sent together with another patch of the same key was answered without error, but not with its target:\n  target  : %s\n  response: %q", a.collection, key, targets[i], got)
			r.fail("refuse", "C16.answered", "concurrent-patch/empty-success", "PatchDocument(%s/%s) sent together with another patch of the same key was answered without error, but not with its target (a refusal has to be an error):\n  target  : %s\n  response: %q", a.collection, key, targets[i], got)
			r.fail("serial", "C12.every-call-returns", "concurrent-patch/empty-success", "PatchDocument(%s/%s) sent together with another patch of the same key was answered without error, but not with its target:\n  target  : %s\n  response: %q", a.collection, key, targets[i], got)
		}
	}
}

// ---------------------------------------------------------------- wire-level actor (C06 / C07)

type wireState struct {
	lastReq   []byte
	responses [][]byte
}

// wireEvent: the harness itself performs the exchange for the actor's datatypes, so it can also
// send what a correct but unlucky client sends: the previous request once more, or apply an
// earlier response again / late.
func (r *run) wireEvent(e Ev) {
	w := r.w
	a := r.actor(e.A)
	if !a.connected || a.realtime {
		return
	}
	a.mu.Lock()
	busy := a.syncing > 0
	a.mu.Unlock()
	if busy {
		return
	}
	if a.wire == nil {
		a.wire = &wireState{}
	}
	mode := e.Mode
	apply := func(b []byte) {
		var resp model.PushPullMessage
		if proto.Unmarshal(b, &resp) != nil {
			return
		}
		for _, p := range resp.PushPullPacks {
			for _, d := range a.dts {
				if d.key == p.Key {
					pk := p
					dd := d
					msg, fp := safely(func() { dd.dt.ApplyPushPullPack(pk) })
					if msg != "" {
						r.fail("nocrash", r.prop+".client-crash", fp, "%s: applying a response to %s panicked: %s", a.name, dd.key, msg)
						panic(abortRun{})
					}
				}
			}
		}
	}
	switch mode {
	case "reapply", "stale":
		if len(a.wire.responses) == 0 {
			return
		}
		i := len(a.wire.responses) - 1
		if mode == "stale" {
			i = mod(e.N, len(a.wire.responses))
		}
		r.fault("resp-" + mode)
		r.logf("%s applies response #%d again (%s)", a.name, i, mode)
		apply(a.wire.responses[i])
		synctest.Wait()
		return
	}
	var reqB []byte
	if mode == "repush" && a.wire.lastReq != nil {
		reqB = a.wire.lastReq
		r.fault("req-repush")
	} else {
		var packs []*model.PushPullPack
		for _, d := range a.dts {
			packs = append(packs, d.dt.CreatePushPullPack())
		}
		req := model.NewPushPullMessage(0, &model.Client{CUID: a.cuid, Collection: a.collection}, packs...)
		reqB, _ = proto.Marshal(req)
	}
	var req model.PushPullMessage
	_ = proto.Unmarshal(reqB, &req)
	a.wire.lastReq = reqB
	done := make(chan callResult, 1)
	go func() {
		m, err := a.ep.t.issue(a.name, "ProcessPushPull", &req)
		done <- callResult{msg: m, err: err}
	}()
	synctest.Wait()
	f := &focus{calls: map[*call]bool{}, owners: map[string]bool{}}
	for _, c := range w.tr.byState("queued") {
		if c.client == a.name {
			f.calls[c] = true
			f.owners[callOwner(c)] = true
			if mode == "repush" {
				c.copies = 2 // not a fresh request of an honest client: no monotonicity expectation
			}
		}
	}
	r.pump(f, nil, e.MF, false, "")
	synctest.Wait()
	select {
	case res := <-done:
		if res.err == nil && res.msg != nil {
			b, _ := proto.Marshal(res.msg)
			if e.Resp == "drop" {
				r.fault("resp-drop")
				a.wire.responses = append(a.wire.responses, b) // it may still arrive later ("stale")
				return
			}
			a.wire.responses = append(a.wire.responses, b)
			apply(b)
		}
	default:
	}
	synctest.Wait()
}

var _ = json.Marshal
