package engb

import (
	"fmt"
	"testing/synctest"

	"github.com/orda-io/orda/client/pkg/model"

	"verif/sim/kernel"
)

// startSync makes the actor call Sync() on a goroutine of its own (the call blocks on the transport).
func (r *run) startSync(a *actor) bool {
	a.mu.Lock()
	if a.syncing > 0 || !a.connected {
		a.mu.Unlock()
		return false
	}
	a.syncing++
	a.synced = true
	a.mu.Unlock()
	go func() {
		var err error
		defer func() {
			x := recover()
			a.mu.Lock()
			a.syncing--
			if x != nil {
				a.syncErrs = append(a.syncErrs, fmt.Sprintf("PANIC at %s: %v", panicSite(), x))
			} else if err != nil {
				a.syncErrs = append(a.syncErrs, err.Error())
			} else {
				a.syncErrs = append(a.syncErrs, "")
			}
			a.mu.Unlock()
		}()
		err = a.client.Sync()
	}()
	return true
}

// syncEvent: the given actors call Sync at the same simulated instant; the exchange(s) are driven
// to completion under the event's fault and scheduling modifiers.
func (r *run) syncEvent(as []*actor, e Ev) {
	w := r.w
	var started []*actor
	for _, a := range as {
		if r.startSync(a) {
			started = append(started, a)
			synctest.Wait() // one at a time, so that call numbers do not depend on goroutine scheduling
		}
	}
	if len(started) == 0 {
		return
	}
	synctest.Wait()
	f := &focus{calls: map[*call]bool{}, owners: map[string]bool{}}
	var calls []*call
	for _, c := range w.tr.byState("queued") {
		for _, a := range started {
			if c.client == a.name {
				f.calls[c] = true
				f.owners[callOwner(c)] = true
				calls = append(calls, c)
			}
		}
	}
	if len(calls) == 0 {
		return
	}
	if len(calls) >= 2 {
		r.res.Probes["par-calls"] += len(calls)
	}
	for _, c := range calls {
		r.evOwners[r.step-1] = append(r.evOwners[r.step-1], callOwner(c))
	}
	var rc *readerCall
	if e.Rd > 0 {
		rc = r.readerJoin(f, e)
	}
	var jc *readerCall
	if e.Join > 0 {
		jc = r.joinCall(f, e, started)
	}
	var g *kernel.Rng
	if len(calls) > 1 || e.S != 0 || len(e.Late) > 0 || rc != nil || jc != nil {
		g = kernel.NewRng(e.S + 17)
	}
	if e.Req == "lost" && len(calls) == 1 {
		c := calls[0]
		r.fault("req-lost")
		r.logf("request %s of %s is lost", callOwner(c), c.client)
		c.state = "finished"
		res := callResult{err: unavailable("request lost")}
		c.resp = &res
		r.mon.onResponse(r, c, res, true)
		c.done <- res
		synctest.Wait()
		return
	}
	var shadow *call
	if e.Req == "dup" && len(calls) == 1 {
		c := calls[0]
		shadow = &call{client: c.client, method: c.method, reqB: c.reqB, req: c.req, done: make(chan callResult, 1), state: "queued"}
		w.tr.mu.Lock()
		w.tr.nextID++
		shadow.id = w.tr.nextID
		w.tr.calls = append(w.tr.calls, shadow)
		w.tr.mu.Unlock()
		r.fault("req-dup")
		if e.S%2 == 0 {
			// the copy races with the original
			f.calls[shadow] = true
			f.owners[callOwner(shadow)] = true
			if g == nil {
				g = kernel.NewRng(e.S + 17)
			}
		}
	}
	r.lagAfter = 0
	if e.Post == "lag" {
		r.lagAfter = mod(e.N, 5) // the snapshot update may have read the log already when it is left behind
	}
	r.cur = &curSync{f: f, late: e.Late, lateAt: int(e.Dur)}
	r.pump(f, g, e.MF, e.Post == "lag", "hold")
	calls = append(calls, r.cur.calls...)
	started = append(started, r.cur.started...)
	r.cur = nil
	// local operations issued while the exchange is in flight: the request is built and sent, the
	// answer has not been applied yet (the application works while another goroutine is in Sync())
	for _, b := range e.Body {
		if b.T == "local" && (e.T == "sync" || e.T == "par") {
			r.probe("local-operation-while-sync-in-flight")
			r.dispatch(b)
			// quiescence before the answer goes on: what the operation starts (a realtime client's
			// delivery goroutine finds the semaphore taken by the Sync in flight) must not race with it
			synctest.Wait()
		}
	}
	// responses
	for _, c := range calls {
		if c.state != "answered" {
			continue
		}
		switch e.Resp {
		case "drop":
			r.fault("resp-drop")
			r.logf("response of %s to %s is dropped", callOwner(c), c.client)
			r.deliverResp(c, true)
		case "late":
			if r.actorByName(c.client).realtime {
				r.fault("resp-late")
				r.held = append(r.held, &heldResp{c: c, after: 1 + mod(e.N, 3)})
				r.logf("response of %s to %s is held back", callOwner(c), c.client)
			} else {
				r.deliverResp(c, false)
			}
		default:
			r.deliverResp(c, false)
		}
		// one answer at a time: a client may send its next request as soon as it has its answer, and
		// the numbering of requests must not depend on which client's goroutine is faster
		synctest.Wait()
	}
	synctest.Wait()
	if r.verbose && noClip {
		for _, a := range started {
			for _, d := range a.dts {
				d.mu.Lock()
				nr, ne := len(d.rops), len(d.errs)
				d.mu.Unlock()
				r.logf("  after sync %s %s: state=%v view=%s remote-ops=%d errors=%d", a.name, d.key, d.dt.GetState(), viewOfDT(d.dt), nr, ne)
			}
		}
	}
	r.readerDone(rc)
	r.joinDone(jc)
	for _, c := range calls {
		if c.state == "finished" && c.pre != nil {
			r.checkErrorPacks(c)
		}
	}
	if r.on("entry") || r.on("msg") {
		w.tick(0)
		for _, c := range calls {
			if c.state == "finished" {
				r.mon.checkEntries(r, c, len(calls) >= 2)
			}
		}
	}
	if shadow != nil {
		if shadow.state == "queued" {
			f2 := &focus{calls: map[*call]bool{shadow: true}, owners: map[string]bool{callOwner(shadow): true}}
			r.pump(f2, nil, nil, e.Post == "lag", "hold")
		}
		if shadow.state == "answered" {
			shadow.state = "finished"
			r.mon.onResponse(r, shadow, *shadow.resp, true) // nobody waits for the copy's answer
		}
	}
}

// curSync is the exchange event the pump is driving.
type curSync struct {
	f       *focus
	lateAt  int // seconds into the slow command at which the late joiners arrive (0: 5)
	late    []int
	calls   []*call
	started []*actor
}

// joinLate: further clients call Sync while a database command of the event is slow - right after the
// lock leases of the requests that have been waiting since the start of the event ran out.
func (r *run) joinLate() {
	cs := r.cur
	late := cs.late
	cs.late = nil
	var started []*actor
	for _, ai := range late {
		a := r.actor(ai)
		if a != nil && r.startSync(a) {
			started = append(started, a)
			synctest.Wait()
		}
	}
	synctest.Wait()
	for _, c := range r.w.tr.byState("queued") {
		for _, a := range started {
			if c.client == a.name && !cs.f.calls[c] {
				cs.f.calls[c] = true
				cs.f.owners[callOwner(c)] = true
				cs.calls = append(cs.calls, c)
				r.evOwners[r.step-1] = append(r.evOwners[r.step-1], callOwner(c))
				r.probe("late-joiner")
				r.logf("  %s calls Sync while the database is slow (request %s)", a.name, callOwner(c))
			}
		}
	}
	cs.started = append(cs.started, started...)
}

func (r *run) actorByName(n string) *actor {
	for _, a := range r.w.actors {
		if a.name == n {
			return a
		}
	}
	return nil
}

// drainLag answers the background commands that were left pending.
func (r *run) drainLag(g *kernel.Rng) {
	if len(r.lagging) == 0 {
		return
	}
	f := &focus{owners: map[string]bool{}, calls: map[*call]bool{}, lag: true}
	for o := range r.lagging {
		f.owners[o] = true
	}
	r.lagging = map[string]bool{}
	r.pump(f, g, nil, false, "")
}

// finalDrain: heal (no more faults), release what is held, let every client sync until a whole
// round neither pushes nor pulls. Bounded liveness: at most 8 rounds.
func (r *run) finalDrain() {
	w := r.w
	r.logf("heal + drain")
	r.holdNext = nil // faults stop here: no answer is slow any more
	for _, h := range r.held {
		synctest.Wait()
		r.deliverResp(h.c, false)
		synctest.Wait()
	}
	r.held = nil
	r.drainLag(nil)
	r.settle(nil)
	quiet := false
	rounds := 0
	for ; rounds < 8 && !quiet; rounds++ {
		before := r.mon.traffic
		for _, a := range w.actors {
			if r.prop == "C18" && a.realtime && allSubscribed(a) {
				continue // realtime clients that completed their first sync have to converge by themselves
			}
			r.syncEvent([]*actor{a}, Ev{T: "sync"})
			r.settle(nil)
			r.checkClientCrash()
		}
		quiet = r.mon.traffic == before
	}
	r.res.Probes["drain-rounds"] += rounds
	if !quiet {
		r.fail("conv", "C05.drain-terminates", "not-quiet-after-8-rounds", "after faults stopped, 8 rounds of Sync by every client still pushed or pulled operations")
		r.fail("retry", "C08.retry-converges", "not-quiet-after-8-rounds", "after faults stopped, 8 rounds of Sync by every client still pushed or pulled operations")
	}
	r.drainLag(nil)
	r.settle(nil)
	w.tick(0)
	if r.verbose {
		for _, a := range w.actors {
			for _, d := range a.dts {
				d.mu.Lock()
				r.logf("%s %s: state=%v duid=%s remote-ops=%v errors=%v changes=%v", a.name, d.key, d.dt.GetState(), d.dt.GetDUID(), d.rops, d.errs, d.chg)
				d.mu.Unlock()
			}
		}
	}
	if r.cfg.Observe {
		r.res.Obs = r.observe()
	}
	r.mon.atQuiescence(r)
}

func (r *run) checkClientCrash() {
	for _, a := range r.w.actors {
		a.mu.Lock()
		errs := a.syncErrs
		a.syncErrs = nil
		a.mu.Unlock()
		for _, e := range errs {
			if len(e) > 5 && e[:5] == "PANIC" {
				r.fail("nocrash", r.prop+".client-crash", clientCrashSite(e), "%s: Sync() panicked: %s", a.name, e)
				panic(abortRun{})
			}
			if e != "" {
				r.probe("sync-error")
				r.logf("%s: Sync returned %s", a.name, clip(e, 200))
			}
		}
	}
}

func clientCrashSite(e string) string {
	// "PANIC at <site>: ..."
	s := e[len("PANIC at "):]
	for i := 0; i < len(s); i++ {
		if s[i] == ':' {
			return s[:i]
		}
	}
	return s
}

func allSubscribed(a *actor) bool {
	for _, d := range a.dts {
		if d.dt.GetState() != model.StateOfDatatype_SUBSCRIBED {
			return false
		}
	}
	return true
}
