package engb

import (
	"encoding/json"
	"fmt"
	"sort"
	"strings"

	"github.com/orda-io/orda/server/schema"

	"verif/sim/kernel"
)

// Observations of a run for scenario demonstrations (seeded/<id>/scenario.json): plain facts about the
// end of the run, independent of every oracle. Client ids are rendered as the client's name so that an
// expectation can be written down by hand.
func (r *run) observe() map[string]string {
	obs := map[string]string{}
	w := r.w
	name := map[string]string{}
	for _, a := range w.actors {
		if a.cuid != "" {
			name[a.cuid] = a.name
		}
	}
	who := func(cuid string) string {
		if n, ok := name[cuid]; ok {
			return n
		}
		return "?" + cuid
	}
	for _, a := range w.actors {
		for _, d := range a.dts {
			view := "?"
			_, _ = safely(func() { view = r.viewOf(d) })
			d.mu.Lock()
			nerr := len(d.errs)
			var codes []string
			for _, e := range d.errs {
				if i := strings.IndexByte(e, ':'); i > 0 {
					codes = append(codes, e[:i])
				}
			}
			nsub := 0
			for _, c := range d.chg {
				if c.New.String() == "SUBSCRIBED" {
					nsub++
				}
			}
			var rops []string
			for _, id := range d.rops {
				if i := strings.IndexByte(id, '#'); i > 0 {
					rops = append(rops, who(id[:i])+id[i:])
				} else {
					rops = append(rops, id)
				}
			}
			d.mu.Unlock()
			k := a.name + ":" + d.key
			obs["client:"+k] = d.dt.GetState().String() + "|" + view
			obs["errors:"+k] = fmt.Sprintf("%d %v", nerr, codes)
			obs["subscribed-reported:"+k] = fmt.Sprint(nsub)
			obs["remote-ops:"+k] = strings.Join(rops, " ")
		}
	}
	dts, _ := r.readStore()
	colls := map[int32]string{}
	for _, d := range r.docsOf(schema.CollectionNameCollections) {
		var cd schema.CollectionDoc
		if decodeInto(d, &cd) == nil {
			colls[cd.Num] = cd.Name
		}
	}
	perKey := map[string]int{}
	for _, duid := range sortedKeys(dts) {
		di := dts[duid]
		k := colls[di.doc.CollectionNum] + "/" + di.doc.Key
		if di.doc.Key == "?orphan" {
			k = "?orphan"
		}
		perKey[k]++
		var ids, ss []string
		for _, so := range di.ops {
			ids = append(ids, fmt.Sprintf("%s#%d", who(so.op.ID.GetCUID()), so.op.ID.GetSeq()))
			ss = append(ss, fmt.Sprint(so.doc.Sseq))
		}
		key := k
		if perKey[k] > 1 {
			key = fmt.Sprintf("%s(%d)", k, perKey[k])
		}
		obs["log:"+key] = fmt.Sprintf("end=%d sseqs=[%s] ops=[%s]", di.doc.Sseq.End, strings.Join(ss, " "), strings.Join(ids, " "))
		if dt, errS := r.replay(di, uint64(len(di.ops))); errS == "" {
			obs["log-replay:"+key] = viewOfDT(dt)
		} else {
			obs["log-replay:"+key] = "error: " + errS
		}
		var cps []string
		for _, cu := range sortedKeys(di.doc.RWClients) {
			cp := di.doc.RWClients[cu].CP
			if cp != nil {
				cps = append(cps, fmt.Sprintf("%s=(s:%d c:%d)", who(cu), cp.Sseq, cp.Cseq))
			}
		}
		sort.Strings(cps)
		obs["checkpoints:"+key] = strings.Join(cps, " ")
	}
	for k, n := range perKey {
		obs["datatype-docs:"+k] = fmt.Sprint(n)
	}
	var snaps []string
	for _, d := range r.docsOf(schema.CollectionNameSnapshot) {
		var sd schema.SnapshotDoc
		if decodeInto(d, &sd) == nil {
			snaps = append(snaps, fmt.Sprintf("%s@%d", colls[sd.CollectionNum]+"/"+keyOfDUID(dts, sd.DUID), sd.Sseq))
		}
	}
	sort.Strings(snaps)
	obs["snapshots"] = strings.Join(snaps, " ")
	for _, cn := range colls {
		for _, d := range r.docsOf(cn) {
			id, _ := get(d, "_id")
			obs[fmt.Sprintf("userdoc:%s/%v", cn, id)] = canonBSON(d)
		}
	}
	r.noteVersions()
	for k, h := range r.verHist {
		obs["userdoc-versions:"+k] = strings.Join(h, " ")
	}
	obs["rest-calls"] = strings.Join(r.restLog, " | ")
	obs["rogue-calls"] = strings.Join(r.rogueLog, " | ")
	var cds []string
	for _, d := range r.docsOf(schema.CollectionNameClients) {
		id, _ := get(d, "_id")
		cn, _ := get(d, "colNum")
		cds = append(cds, fmt.Sprintf("%s@%s", who(fmt.Sprint(id)), colls[int32(toInt(cn))]))
	}
	sort.Strings(cds)
	obs["client-docs"] = strings.Join(cds, " ")
	var pubs []string
	for _, p := range w.br.pubs {
		var n notif
		if json.Unmarshal(p.Payload, &n) == nil {
			pubs = append(pubs, fmt.Sprintf("%s:%s:%d", p.Topic, who(n.CUID), n.Sseq))
		}
	}
	obs["publishes"] = strings.Join(pubs, " ")
	nreq := map[string]int{}
	for _, c := range w.tr.calls {
		nreq[c.client]++
	}
	for _, k := range kernel.SortedKeys(nreq) {
		obs["requests:"+k] = fmt.Sprint(nreq[k])
	}
	return obs
}

// noteVersions records the version recorded in every user document after an event (scenario runs only).
func (r *run) noteVersions() {
	if r.verHist == nil {
		r.verHist = map[string][]string{}
	}
	for _, d := range r.docsOf(schema.CollectionNameCollections) {
		var cd schema.CollectionDoc
		if decodeInto(d, &cd) != nil {
			continue
		}
		for _, ud := range r.docsOf(cd.Name) {
			id, _ := get(ud, "_id")
			v, _ := get(ud, "_orda_ver_")
			k := fmt.Sprintf("%s/%v", cd.Name, id)
			s := fmt.Sprint(toInt(v))
			if h := r.verHist[k]; len(h) == 0 || h[len(h)-1] != s {
				r.verHist[k] = append(r.verHist[k], s)
			}
		}
	}
}

func keyOfDUID(dts map[string]*dtInfo, duid string) string {
	if di := dts[duid]; di != nil {
		return di.doc.Key
	}
	return "?" + duid
}
