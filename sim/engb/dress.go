package engb

import (
	"math"
	"reflect"

	"verif/sim/kernel"
)

// Go-native dressing of JSON values (C14: "Go native numerics of every width, pointers, structs, maps,
// slices"). The JSON meaning of a dressed value is exactly the JSON meaning of the original; what
// changes is the Go type the application hands to the library. Pointers are "poked" after the call:
// the library must have captured the value, not the variable.

type dressed struct {
	vals  []interface{}
	pokes []func()
}

type dressStruct struct {
	A int32    `json:"a"`
	B *string  `json:"b"`
	C []uint16 `json:"c"`
}

func (r *run) dress(e Ev) *dressed {
	d := &dressed{}
	if !r.on("wire") {
		d.vals = e.V
		return d
	}
	g := kernel.NewRng(e.S*31 + 5)
	for _, v := range e.V {
		d.vals = append(d.vals, d.one(g, v, 0))
	}
	return d
}

func (d *dressed) one(g *kernel.Rng, v interface{}, depth int) interface{} {
	if depth > 0 {
		// Inside a composite value everything stays generic JSON: the library keeps composite values
		// as they are given (json_values_test.go pins that), so nothing is demanded of their inside
		// (empty arrays may still arrive as nil slices, see below).
		if _, isMap := v.(map[string]interface{}); !isMap {
			if _, isArr := v.([]interface{}); !isArr {
				return v
			}
		}
	}
	switch x := v.(type) {
	case float64:
		return d.number(g, x)
	case string:
		if g.Chance(1, 3) {
			p := new(string)
			*p = x
			d.pokes = append(d.pokes, func() { *p = *p + "!poked" })
			return p
		}
		return x
	case bool:
		if g.Chance(1, 3) {
			p := new(bool)
			*p = x
			d.pokes = append(d.pokes, func() { *p = !*p })
			return p
		}
		return x
	case map[string]interface{}:
		if a, ok := x["a"].(float64); ok && len(x) <= 3 && a == math.Trunc(a) && math.Abs(a) < 1e9 && depth < 2 && g.Chance(1, 2) {
			// a struct whose JSON form is this object
			bs, okb := x["b"].(string)
			_, hasB := x["b"]
			cs, okc := x["c"].([]interface{})
			_, hasC := x["c"]
			fits := (okb || !hasB) && (okc || !hasC) && len(x) == 1+b2i(hasB)+b2i(hasC) && hasB && hasC
			var cu []uint16
			for _, e := range cs {
				f, okf := e.(float64)
				if !okf || f < 0 || f > 65535 || f != math.Trunc(f) {
					fits = false
					break
				}
				cu = append(cu, uint16(f))
			}
			if fits && cu != nil {
				s := bs
				return dressStruct{A: int32(a), B: &s, C: cu}
			}
		}
		out := map[string]interface{}{}
		for _, k := range kernel.SortedKeys(x) {
			out[k] = d.one(g, x[k], depth+1)
		}
		return out
	case []interface{}:
		if len(x) == 0 && g.Chance(1, 2) {
			// an empty array handed over as what Go programs usually have: a nil slice (an unset []T field, a
			// `var tags []string`). JSON renders it as null, so the library has to refuse it or store [] -
			// on every replica alike.
			r := []string(nil)
			return r
		}
		if len(x) > 0 && g.Chance(1, 3) {
			// a typed slice when every element is a small non-negative integer
			ok := true
			var us []uint32
			for _, e := range x {
				f, isF := e.(float64)
				if !isF || f < 0 || f > 4e9 || f != math.Trunc(f) {
					ok = false
					break
				}
				us = append(us, uint32(f))
			}
			if ok {
				return us
			}
		}
		out := make([]interface{}, len(x))
		for i, e := range x {
			out[i] = d.one(g, e, depth+1)
		}
		return out
	}
	return v
}

func b2i(b bool) int {
	if b {
		return 1
	}
	return 0
}

// number picks, among the Go numeric types that hold f exactly, one by the seed; half of the time a pointer to it.
func (d *dressed) number(g *kernel.Rng, f float64) interface{} {
	integral := f == math.Trunc(f) && math.Abs(f) <= 1<<53
	type cand func(ptr bool) interface{}
	var cs []cand
	cs = append(cs, func(ptr bool) interface{} {
		if ptr {
			p := new(float64)
			*p = f
			d.pokes = append(d.pokes, func() { *p = *p + 1 })
			return p
		}
		return f
	})
	if float64(float32(f)) == f {
		cs = append(cs, func(ptr bool) interface{} {
			if ptr {
				p := new(float32)
				*p = float32(f)
				d.pokes = append(d.pokes, func() { *p = *p + 1 })
				return p
			}
			return float32(f)
		})
	}
	if integral {
		add := func(lo, hi float64, mk func(ptr bool) interface{}) {
			if f >= lo && f <= hi {
				cs = append(cs, mk)
			}
		}
		add(math.MinInt32, math.MaxInt32, func(ptr bool) interface{} {
			if ptr {
				p := new(int)
				*p = int(f)
				d.pokes = append(d.pokes, func() { *p++ })
				return p
			}
			return int(f)
		})
		add(math.MinInt8, math.MaxInt8, func(ptr bool) interface{} {
			if ptr {
				p := new(int8)
				*p = int8(f)
				d.pokes = append(d.pokes, func() { *p ^= 1 })
				return p
			}
			return int8(f)
		})
		add(math.MinInt16, math.MaxInt16, func(ptr bool) interface{} {
			if ptr {
				p := new(int16)
				*p = int16(f)
				d.pokes = append(d.pokes, func() { *p ^= 1 })
				return p
			}
			return int16(f)
		})
		add(math.MinInt32, math.MaxInt32, func(ptr bool) interface{} {
			if ptr {
				p := new(int32)
				*p = int32(f)
				d.pokes = append(d.pokes, func() { *p ^= 1 })
				return p
			}
			return int32(f)
		})
		add(-(1 << 53), 1<<53, func(ptr bool) interface{} {
			if ptr {
				p := new(int64)
				*p = int64(f)
				d.pokes = append(d.pokes, func() { *p ^= 1 })
				return p
			}
			return int64(f)
		})
		add(0, math.MaxUint32, func(ptr bool) interface{} {
			if ptr {
				p := new(uint)
				*p = uint(f)
				d.pokes = append(d.pokes, func() { *p ^= 1 })
				return p
			}
			return uint(f)
		})
		add(0, math.MaxUint8, func(ptr bool) interface{} {
			if ptr {
				p := new(uint8)
				*p = uint8(f)
				d.pokes = append(d.pokes, func() { *p ^= 1 })
				return p
			}
			return uint8(f)
		})
		add(0, math.MaxUint16, func(ptr bool) interface{} {
			if ptr {
				p := new(uint16)
				*p = uint16(f)
				d.pokes = append(d.pokes, func() { *p ^= 1 })
				return p
			}
			return uint16(f)
		})
		add(0, math.MaxUint32, func(ptr bool) interface{} {
			if ptr {
				p := new(uint32)
				*p = uint32(f)
				d.pokes = append(d.pokes, func() { *p ^= 1 })
				return p
			}
			return uint32(f)
		})
		add(0, 1<<53, func(ptr bool) interface{} {
			if ptr {
				p := new(uint64)
				*p = uint64(f)
				d.pokes = append(d.pokes, func() { *p ^= 1 })
				return p
			}
			return uint64(f)
		})
	}
	if f == math.Trunc(f) && math.Abs(f) > 1<<53 && math.Abs(f) < 9.2e18 {
		// A 64-bit integer that float64 cannot hold (a UnixNano, a 64-bit id): the library stores every
		// number as float64, so its JSON meaning is the nearest float64 - this one.
		for _, k := range []int64{1, -1, 3, 0} {
			v := int64(f) + k
			if float64(v) != f {
				continue
			}
			cs = append(cs, func(ptr bool) interface{} {
				if ptr {
					p := new(int64)
					*p = v
					d.pokes = append(d.pokes, func() { *p = 0 })
					return p
				}
				return v
			})
			if v > 0 {
				cs = append(cs, func(ptr bool) interface{} {
					if ptr {
						p := new(uint64)
						*p = uint64(v)
						d.pokes = append(d.pokes, func() { *p = 0 })
						return p
					}
					return uint64(v)
				})
			}
			break
		}
	}
	return cs[g.Intn(len(cs))](g.Chance(1, 2))
}

// jsonNative: what a typed read may return for a scalar: float64, string, bool. Composite values
// (maps, slices, structs and pointers to them) are kept as given and are not judged.
func jsonNative(v interface{}) bool {
	switch v.(type) {
	case nil, float64, string, bool:
		return true
	}
	rv := reflect.ValueOf(v)
	k := rv.Kind()
	if k == reflect.Ptr {
		k = rv.Elem().Kind()
	}
	switch k {
	case reflect.Int, reflect.Int8, reflect.Int16, reflect.Int32, reflect.Int64,
		reflect.Uint, reflect.Uint8, reflect.Uint16, reflect.Uint32, reflect.Uint64,
		reflect.Float32, reflect.Float64, reflect.String, reflect.Bool:
		return false // a scalar that was not converted (or a pointer to one)
	}
	return true
}
