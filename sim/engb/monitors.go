package engb

import (
	gocontext "context"
	"encoding/json"
	"fmt"
	"sort"
	"strconv"
	"strings"

	"github.com/orda-io/orda/client/pkg/context"
	"github.com/orda-io/orda/client/pkg/iface"
	"github.com/orda-io/orda/client/pkg/model"
	"github.com/orda-io/orda/client/pkg/orda"
	"github.com/orda-io/orda/server/schema"
	"github.com/orda-io/orda/server/snapshot"
	"go.mongodb.org/mongo-driver/bson"
	"google.golang.org/protobuf/proto"

	"verif/sim/kernel"
)

// storedOp is one document of -_-Operations, decoded with the real driver codec.
type storedOp struct {
	doc schema.OperationDoc
	op  *model.Operation
}

type dtInfo struct {
	doc schema.DatatypeDoc
	ops []storedOp // sorted by sseq
}

type monitors struct {
	traffic      int                          // operations pushed or pulled so far (drain termination)
	lastReqCP    map[string]*model.CheckPoint // client|key → last request checkpoint
	acked        map[string]map[string]uint64 // duid → cuid → highest acknowledged cseq
	pushed       map[string]map[string]string // duid → "cuid#seq" → canonical op as sent by the client
	pushers      map[string]bool
	expectPub    []expectedPub
	verSeen      map[string]uint64 // collection/key → highest _orda_ver_ seen
	subscribedAt map[string]uint64
	seenPub      int
	callSnap     map[*call]map[string]bool // stored op ids (duid:sseq) when the call was released
	honest       map[string]bool
	pulledSeq    map[string][]string // client|key → op ids pulled, in order (from responses actually delivered)
	pubChecked   map[*call]bool
	echoed       map[*call]bool
	entries      map[*call][]*entryExpect
}

type expectedPub struct {
	call  *call
	topic string
	cuid  string
	duid  string
	sseq  uint64
	done  bool
}

func newMonitors() *monitors {
	return &monitors{lastReqCP: map[string]*model.CheckPoint{}, acked: map[string]map[string]uint64{}, pushed: map[string]map[string]string{},
		pushers: map[string]bool{}, verSeen: map[string]uint64{}, callSnap: map[*call]map[string]bool{}, honest: map[string]bool{}, pulledSeq: map[string][]string{}, pubChecked: map[*call]bool{}, entries: map[*call][]*entryExpect{}, echoed: map[*call]bool{}}
}

func (m *monitors) afterSetup(r *run) {
	for _, a := range r.w.actors {
		m.honest[a.name] = true
	}
}

func opKey(op *model.Operation) string {
	return fmt.Sprintf("%s#%d", op.ID.GetCUID(), op.ID.GetSeq())
}

func canonOp(op *model.Operation) string {
	body := string(op.Body)
	if json.Valid(op.Body) {
		body = kernel.CanonBytes(op.Body)
	}
	return fmt.Sprintf("%s|%d|%d|%s|%d|%s|%s", op.ID.GetCUID(), op.ID.GetSeq(), op.ID.GetLamport(), "", op.ID.GetEra(), op.OpType.String(), body)
}

// ---------------------------------------------------------------- reading the store

func (r *run) docsOf(coll string) []bson.D {
	c := r.w.store.DBs[dbName][coll]
	if c == nil {
		return nil
	}
	return c.Docs
}

func decodeInto(d bson.D, v interface{}) error {
	b, err := bson.Marshal(d)
	if err != nil {
		return err
	}
	return bson.Unmarshal(b, v)
}

// readStore decodes datatypes and their operations from the durable image.
func (r *run) readStore() (map[string]*dtInfo, []string) {
	out := map[string]*dtInfo{}
	var problems []string
	for _, d := range r.docsOf(schema.CollectionNameDatatypes) {
		var dd schema.DatatypeDoc
		if err := decodeInto(d, &dd); err != nil {
			problems = append(problems, "datatype doc does not decode: "+err.Error())
			continue
		}
		out[dd.DUID] = &dtInfo{doc: dd}
	}
	for _, d := range r.docsOf(schema.CollectionNameOperations) {
		var od schema.OperationDoc
		if err := decodeInto(d, &od); err != nil {
			problems = append(problems, "operation doc does not decode: "+err.Error())
			continue
		}
		di := out[od.DUID]
		if di == nil {
			di = &dtInfo{}
			di.doc.DUID = od.DUID
			di.doc.Key = "?orphan"
			out[od.DUID] = di
		}
		di.ops = append(di.ops, storedOp{doc: od, op: od.GetOperation()})
	}
	for _, di := range out {
		sort.SliceStable(di.ops, func(i, j int) bool { return di.ops[i].doc.Sseq < di.ops[j].doc.Sseq })
	}
	return out, problems
}

func (r *run) storeDigest() string {
	return r.w.store.Dump(dbName, func(coll, field string) bool {
		// timestamps; and the serialized document snapshot, whose node list is written in Go map order
		return field == "createdAt" || field == "updatedAt" || field == "at" || (coll == schema.CollectionNameSnapshot && field == "snapshot")
	})
}

// committedDigest is storeDigest without the operation rows that lie beyond the recorded end of their
// datatype's log (or belong to no datatype document): what an interrupted commit left behind. Such
// rows are not part of any log; the next push-pull of the datatype - also one that ends up refused -
// removes them before it does anything else (see DESIGN §10-25).
func (r *run) committedDigest() string {
	dts, _ := r.readStore()
	var sb strings.Builder
	inOps := false
	for _, ln := range strings.Split(r.storeDigest(), "\n") {
		if strings.HasPrefix(ln, "== ") {
			inOps = strings.HasPrefix(ln, "== "+schema.CollectionNameOperations+" ")
			if inOps {
				ln = "== " + schema.CollectionNameOperations
			}
		} else if inOps && ln != "" {
			var od struct {
				DUID string `json:"duid"`
				Sseq struct {
					N string `json:"$numberLong"`
				} `json:"sseq"`
			}
			if json.Unmarshal([]byte(ln), &od) == nil {
				n, _ := strconv.ParseUint(od.Sseq.N, 10, 64)
				di := dts[od.DUID]
				if di == nil || di.doc.Key == "?orphan" || n > di.doc.Sseq.End {
					continue
				}
			}
		}
		sb.WriteString(ln)
		sb.WriteByte('\n')
	}
	return sb.String()
}

// ---------------------------------------------------------------- seam monitors

func (m *monitors) onRequest(r *run, c *call, req interface{}) {
	pp, ok := req.(*model.PushPullMessage)
	if !ok {
		return
	}
	snap := map[string]bool{}
	for _, d := range r.docsOf(schema.CollectionNameOperations) {
		for _, e := range d {
			if e.Key == "_id" {
				if s, ok := e.Value.(string); ok {
					snap[s] = true
				}
			}
		}
	}
	m.callSnap[c] = snap
	if m.honest[c.client] && c.copies == 1 && (r.on("entry") || r.on("msg")) {
		m.expectEntries(r, c, pp)
	}
	for _, p := range pp.PushPullPacks {
		if m.honest[c.client] && c.copies == 1 {
			k := c.client + "|" + p.Key
			if last := m.lastReqCP[k]; last != nil && p.CheckPoint != nil && !p.GetPushPullPackOption().HasSubscribeBit() {
				if p.CheckPoint.Sseq < last.Sseq || p.CheckPoint.Cseq-uint64(len(p.Operations)) < last.Cseq-0 && false {
					r.fail("conv", "C05.checkpoint-monotone", "sseq-decreased", "%s: request checkpoint for %s went from %s to %s", c.client, p.Key, last.ToString(), p.CheckPoint.ToString())
				}
				if p.CheckPoint.Sseq < last.Sseq {
					r.fail("msg", "C07.same-as-fault-free", "checkpoint-went-back", "%s: request checkpoint for %s went from %s to %s", c.client, p.Key, last.ToString(), p.CheckPoint.ToString())
				}
			}
			if p.CheckPoint != nil {
				m.lastReqCP[k] = p.CheckPoint.Clone()
			}
		}
		if len(p.Operations) > 0 {
			if m.pushed[p.DUID] == nil {
				m.pushed[p.DUID] = map[string]string{}
			}
			for _, op := range p.Operations {
				if op.ID == nil {
					continue
				}
				m.pushed[p.DUID][opKey(op)] = canonOp(op)
			}
		}
	}
}

func (m *monitors) onResponse(r *run, c *call, res callResult, dropped bool) {
	if c.method != "ProcessPushPull" {
		return
	}
	if res.err != nil {
		r.probe("rpc-error")
		return
	}
	resp, ok := res.msg.(*model.PushPullMessage)
	if !ok {
		return
	}
	req, _ := c.req.(*model.PushPullMessage)
	for _, p := range resp.PushPullPacks {
		if p.GetPushPullPackOption().HasErrorBit() {
			r.probe("error-pack")
			if len(p.Operations) > 0 && strings.Contains(string(p.Operations[0].Body), "fail to lock") {
				r.probe("lock-timeout")
				// somebody else must have been working on the same collection and key
				shared := false
				for _, o := range r.w.tr.calls {
					if o == c || o.startAt > c.endAt && c.endAt != 0 {
						continue
					}
					if oreq, ok := o.req.(*model.PushPullMessage); ok && req != nil && oreq.Collection == req.Collection {
						for _, q := range oreq.PushPullPacks {
							if q.Key == p.Key {
								shared = true
							}
						}
					}
					if pm, ok := o.req.(*model.PatchMessage); ok && req != nil && pm.Collection == req.Collection && pm.Key == p.Key {
						shared = true
					}
				}
				if !shared {
					r.fail("serial", "C12.isolation", "blocked-by-other-key", "%s: the push-pull of %s could not get its lock although no other request touched that key", c.client, p.Key)
				}
				// A handler holds the lock of its datatype only while it works, and in the simulation work
				// takes time only while the database is slow: the whole database (time jumps with every
				// command pending), or one command it sits on. A lease can run out only behind a holder
				// that is waiting for such a command of the same datatype (or, with the inserted
				// scheduling points as seams, behind a holder the scheduler left standing meanwhile).
				if r.res.Faults["server-crash"] == 0 && !r.cfg.HoldPub && req != nil {
					reason := r.evSlow > 0 || (r.cfg.Yields && len(r.evStall) > 0)
					if !reason {
						marks := []string{fmt.Sprintf("%q", p.Key)}
						if p.DUID != "" {
							marks = append(marks, p.DUID)
						}
						dts, _ := r.readStore()
						colNum := r.collNum(req.Collection)
						for _, duid := range sortedKeys(dts) {
							if di := dts[duid]; di.doc.Key == p.Key && di.doc.CollectionNum == colNum {
								marks = append(marks, duid)
							}
						}
						for _, st := range r.evStall {
							for _, mk := range marks {
								if strings.Contains(st, mk) {
									reason = true
								}
							}
						}
					}
					r.probe("lock-timeout-judged")
					if !reason {
						r.fail("serial", "C12.isolation", "lock-timeout-behind-idle-holder", "%s: the push-pull of %s could not get the lock of its datatype within the lease although no request for that datatype was waiting for the database (commands the database sat on in this step: %d, none of them of this datatype)", c.client, p.Key, len(r.evStall))
					}
				}
			}
			continue
		}
		var reqPack *model.PushPullPack
		if req != nil {
			for _, q := range req.PushPullPacks {
				if q.Key == p.Key {
					reqPack = q
				}
			}
		}
		nPushed := 0
		if reqPack != nil {
			nPushed = len(reqPack.Operations)
		}
		if nPushed > 0 || len(p.Operations) > 0 {
			m.traffic += nPushed + len(p.Operations)
		}
		if nPushed > 0 {
			m.pushers[c.client] = true
			r.res.Probes["pushers"] = len(m.pushers)
		}
		if nPushed > 0 && len(p.Operations) > nPushed {
			r.probe("push-with-pull")
		}
		if p.CheckPoint != nil && req != nil {
			if m.acked[p.DUID] == nil {
				m.acked[p.DUID] = map[string]uint64{}
			}
			if p.CheckPoint.Cseq > m.acked[p.DUID][req.Cuid] {
				m.acked[p.DUID][req.Cuid] = p.CheckPoint.Cseq
			}
		}
	}
}

// ---------------------------------------------------------------- invariants after every event

func (m *monitors) afterEvent(r *run) {
	r.checkClientCrash()
	if r.on("entry") && len(m.entries) > 0 {
		// entry requests that were not part of a Sync event (a realtime client enters by itself, while
		// the world settles): judged like entries that raced with others
		for _, c := range r.w.tr.calls {
			if m.entries[c] != nil && c.state == "finished" {
				m.checkEntries(r, c, true)
			}
		}
	}
	if gap := r.w.mongo.Gap(); gap != "" {
		r.harness("MongoDB stand-in does not model: %s", gap)
	}
	r.checkHandlerErrors()
	dts, problems := r.readStore()
	for _, p := range problems {
		r.fail("log", "C06.decodes", "store-decode", "%s", p)
		r.fail("wire", "C14.store", "store-decode", "%s", p)
	}
	inflight := len(r.w.tr.byState("running")) > 0 || len(r.lagging) > 0
	m.checkLog(r, dts, inflight, false)
	if r.on("snap") {
		m.checkSnapshots(r, dts)
	}
	if r.on("wire") {
		m.checkWire(r, dts)
		m.checkEcho(r)
	}
	if r.on("notify") {
		m.checkPublishes(r, dts)
	}
	if r.on("iso") {
		m.checkIsolation(r, dts)
	}
}

// checkLog: C06 — gapless total order of exactly the pushed operations, sound checkpoints.
func (m *monitors) checkLog(r *run, dts map[string]*dtInfo, inflight bool, final bool) {
	fam := "log"
	// after a database fault the recorded end may lag behind the stored operations until the next
	// push-pull of that datatype repairs it (see C08): then the equation is only demanded at the end
	faulted := false
	for k, v := range r.res.Faults {
		if (strings.HasPrefix(k, "mongo-") || k == "server-crash") && v > 0 && k != "mongo-slow" && k != "mongo-stall" {
			faulted = true // a server crash around a command interrupts a commit exactly as a command error does
		}
	}
	if faulted && !final {
		inflight = true
	}
	for _, duid := range sortedKeys(dts) {
		di := dts[duid]
		n := uint64(len(di.ops))
		perClient := map[string]uint64{}
		seen := map[string]bool{}
		for i, so := range di.ops {
			want := uint64(i + 1)
			if so.doc.Sseq != want {
				fp := "gap"
				if i > 0 && so.doc.Sseq == di.ops[i-1].doc.Sseq {
					fp = "repeat"
				}
				r.fail(fam, "C06.sseq-gapless", fp, "datatype %s(%s): stored server sequence numbers are %v, expected 1..%d", di.doc.Key, duid, sseqs(di.ops), n)
				r.fail("retry", "C08.log-gapless", fp, "datatype %s(%s): stored server sequence numbers are %v", di.doc.Key, duid, sseqs(di.ops))
				r.fail("msg", "C07.log-gapless", fp, "datatype %s(%s): stored server sequence numbers are %v", di.doc.Key, duid, sseqs(di.ops))
				r.fail("serial", "C12.log-gapless", fp, "datatype %s(%s): stored server sequence numbers are %v", di.doc.Key, duid, sseqs(di.ops))
				break
			}
			if so.doc.ID != fmt.Sprintf("%s:%d", duid, so.doc.Sseq) {
				r.fail(fam, "C06.sseq-gapless", "id-format", "operation document id %q does not name %s:%d", so.doc.ID, duid, so.doc.Sseq)
			}
			k := opKey(so.op)
			registered := m.isClientCUID(r, so.op.ID.GetCUID())
			if seen[k] && registered {
				r.fail(fam, "C06.every-pushed-op-once", "stored-twice", "datatype %s: operation %s is stored twice (sseq %v)", di.doc.Key, k, sseqs(di.ops))
				r.fail("msg", "C07.same-as-fault-free", "stored-twice", "datatype %s: operation %s is stored twice", di.doc.Key, k)
				r.fail("retry", "C08.exactly-once", "stored-twice", "datatype %s: operation %s is stored twice", di.doc.Key, k)
				r.fail("serial", "C12.exactly-once", "stored-twice", "datatype %s: operation %s is stored twice", di.doc.Key, k)
			}
			seen[k] = true
			cu := so.op.ID.GetCUID()
			if so.op.ID.GetSeq() != perClient[cu]+1 && registered {
				r.fail(fam, "C06.client-order", "seq-order", "datatype %s: operations of client %s are stored with seq %d after %d (sseq %d)", di.doc.Key, cu, so.op.ID.GetSeq(), perClient[cu], so.doc.Sseq)
				r.fail("msg", "C07.same-as-fault-free", "seq-order", "datatype %s: operations of client %s are stored with seq %d after %d", di.doc.Key, cu, so.op.ID.GetSeq(), perClient[cu])
				r.fail("retry", "C08.exactly-once", "seq-order", "datatype %s: operations of client %s are stored with seq %d after %d", di.doc.Key, cu, so.op.ID.GetSeq(), perClient[cu])
				r.fail("serial", "C12.client-order", "seq-order", "datatype %s: operations of client %s are stored with seq %d after %d", di.doc.Key, cu, so.op.ID.GetSeq(), perClient[cu])
			}
			perClient[cu] = so.op.ID.GetSeq()
			if sent, ok := m.pushed[duid][k]; ok {
				if got := canonOp(so.op); got != sent {
					r.fail("wire", "C14.store", "stored-differs", "operation %s of %s as stored differs from what the client sent:\n  sent  : %s\n  stored: %s", k, di.doc.Key, sent, got)
					r.fail(fam, "C06.every-pushed-op-once", "stored-differs", "operation %s of %s as stored differs from what the client sent", k, di.doc.Key)
				}
			} else if di.doc.Key != "?orphan" && registered {
				r.fail(fam, "C06.every-pushed-op-once", "never-pushed", "datatype %s stores operation %s that no client pushed", di.doc.Key, k)
			}
		}
		if di.doc.Key == "?orphan" {
			// A creation whose commit failed before the datatype document was written leaves operations
			// behind; the creator's retry removes them. When somebody else created the key in between,
			// the retry is refused and the rows stay: nobody was ever told that this datatype exists, so
			// it is not "a datatype" of the property. Anything a client holds as subscribed must be there.
			abandoned := false
			if faulted {
				abandoned = true
				for _, a := range r.w.actors {
					for _, d := range a.dts {
						if d.dt.GetDUID() == duid && d.dt.GetState() == model.StateOfDatatype_SUBSCRIBED {
							abandoned = false
						}
					}
				}
			}
			if !inflight && !abandoned {
				r.fail(fam, "C06.end-matches", "orphan-operations", "operations of %s are stored but no datatype document exists", duid)
				if final {
					// between a failed commit and the retry the log may be ahead of its datatype document
					r.fail("retry", "C08.recoverable", "orphan-operations", "operations of %s are stored but no datatype document exists", duid)
				}
			}
			continue
		}
		if !inflight && di.doc.Sseq.End != n {
			r.fail(fam, "C06.end-matches", "end-differs", "datatype %s(%s): recorded end of log %d but %d operations are stored", di.doc.Key, duid, di.doc.Sseq.End, n)
			if final {
				r.fail("retry", "C08.recoverable", "end-differs", "datatype %s(%s): after all clients retried, the recorded end of log is %d but %d operations are stored", di.doc.Key, duid, di.doc.Sseq.End, n)
			}
			r.fail("serial", "C12.end-matches", "end-differs", "datatype %s(%s): recorded end of log %d but %d operations are stored", di.doc.Key, duid, di.doc.Sseq.End, n)
			r.fail("msg", "C07.log-gapless", "end-differs", "datatype %s(%s): recorded end of log %d but %d operations are stored", di.doc.Key, duid, di.doc.Sseq.End, n)
		}
		for _, cu := range sortedKeys(di.doc.RWClients) {
			sc := di.doc.RWClients[cu]
			if sc == nil || sc.CP == nil {
				continue
			}
			if sc.CP.Sseq > n && !inflight {
				r.fail(fam, "C06.checkpoint-sound", "sseq-beyond-log", "datatype %s: checkpoint of %s is %s but only %d operations are stored", di.doc.Key, cu, sc.CP.ToString(), n)
			}
			if sc.CP.Cseq > perClient[cu] && !inflight {
				r.fail(fam, "C06.checkpoint-sound", "acknowledges-unstored", "datatype %s: checkpoint of %s acknowledges its operation %d but the newest stored one is %d", di.doc.Key, cu, sc.CP.Cseq, perClient[cu])
				r.fail("retry", "C08.acked-not-lost", "acknowledges-unstored", "datatype %s: checkpoint of %s acknowledges its operation %d but the newest stored one is %d", di.doc.Key, cu, sc.CP.Cseq, perClient[cu])
			}
		}
		// acknowledged to the client ⇒ stored
		for _, cu := range sortedKeys(m.acked[duid]) {
			if m.acked[duid][cu] > perClient[cu] {
				r.fail(fam, "C06.checkpoint-sound", "acked-to-client-not-stored", "datatype %s: the server acknowledged operation %d of %s in a response, but the newest stored one is %d", di.doc.Key, m.acked[duid][cu], cu, perClient[cu])
				r.fail("retry", "C08.acked-not-lost", "acked-to-client-not-stored", "datatype %s: the server acknowledged operation %d of %s, but the newest stored one is %d", di.doc.Key, m.acked[duid][cu], cu, perClient[cu])
				r.fail("msg", "C07.same-as-fault-free", "acked-to-client-not-stored", "datatype %s: the server acknowledged operation %d of %s, but the newest stored one is %d", di.doc.Key, m.acked[duid][cu], cu, perClient[cu])
			}
		}
	}
	// one datatype per (collection, key)
	byKey := map[string]string{}
	for _, duid := range sortedKeys(dts) {
		di := dts[duid]
		if di.doc.Key == "?orphan" {
			continue
		}
		k := fmt.Sprintf("%d/%s", di.doc.CollectionNum, di.doc.Key)
		if other, ok := byKey[k]; ok {
			r.fail("entry", "C13.one-datatype-per-key", "two-datatypes", "collection %d key %s has two datatype documents: %s and %s", di.doc.CollectionNum, di.doc.Key, other, duid)
			r.fail("serial", "C12.one-datatype-per-key", "two-datatypes", "collection %d key %s has two datatype documents: %s and %s", di.doc.CollectionNum, di.doc.Key, other, duid)
			r.fail(fam, "C06.one-datatype-per-key", "two-datatypes", "collection %d key %s has two datatype documents: %s and %s", di.doc.CollectionNum, di.doc.Key, other, duid)
		}
		byKey[k] = duid
	}
}

// isClientCUID: is this the id of a client registered through ProcessClient (as opposed to the
// server's own replica used by the REST patch endpoint)?
func (m *monitors) isClientCUID(r *run, cuid string) bool {
	for _, a := range r.w.actors {
		if a.cuid == cuid {
			return true
		}
	}
	return false
}

func sseqs(ops []storedOp) []uint64 {
	out := make([]uint64, len(ops))
	for i, o := range ops {
		out[i] = o.doc.Sseq
	}
	return out
}

func sortedKeys[V any](m map[string]V) []string {
	out := make([]string, 0, len(m))
	for k := range m {
		out = append(out, k)
	}
	sort.Strings(out)
	return out
}

// checkHandlerErrors: in fault-free runs nobody's error handler may fire unexpectedly.
func (r *run) checkHandlerErrors() {
	for _, a := range r.w.actors {
		for _, d := range a.dts {
			d.mu.Lock()
			errs := d.errs
			d.mu.Unlock()
			if len(errs) > 0 {
				r.res.Probes["handler-errors"] = r.res.Probes["handler-errors"] + 0
			}
		}
	}
}

// ---------------------------------------------------------------- replaying a log prefix with real client code

func kindOfType(t string) model.TypeOfDatatype {
	return model.TypeOfDatatype(model.TypeOfDatatype_value[t])
}

func cloneOp(op *model.Operation) *model.Operation {
	b, _ := proto.Marshal(op)
	var o model.Operation
	_ = proto.Unmarshal(b, &o)
	return &o
}

// replay feeds log[1..v] to a fresh local replica (the way the server's snapshot manager does).
func (r *run) replay(di *dtInfo, v uint64) (iface.Datatype, string) {
	c := orda.NewClient(orda.NewLocalClientConfig("x"), "replay")
	var dt iface.Datatype
	var ops []*model.Operation
	for _, so := range di.ops {
		if so.doc.Sseq <= v {
			ops = append(ops, cloneOp(so.op))
		}
	}
	var errS string
	msg, fp := safely(func() {
		dt = c.CreateDatatype(di.doc.Key, kindOfType(di.doc.Type), nil).(iface.Datatype)
		dt.SetDUID(di.doc.DUID)
		exact := make([]*model.Operation, len(ops))
		copy(exact, ops)
		if _, e := dt.ReceiveRemoteModelOperations(exact, false); e != nil {
			errS = e.Error()
		}
	})
	if msg != "" {
		return nil, "panic at " + fp + ": " + msg
	}
	return dt, errS
}

func viewOfDT(dt iface.Datatype) string {
	s := kernel.Canon(dt.ToJSON())
	switch p := dt.(type) {
	case orda.Map:
		s += fmt.Sprintf("|size=%d", p.Size())
	case orda.List:
		s += fmt.Sprintf("|size=%d", p.Size())
	}
	return s
}

// serverRebuild runs the real snapshot.Manager.GetLatestDatatype over the stub store.
func (r *run) serverRebuild(di *dtInfo) (string, uint64, string) {
	w := r.w
	var coll *schema.CollectionDoc
	for _, d := range r.docsOf(schema.CollectionNameCollections) {
		var cd schema.CollectionDoc
		if decodeInto(d, &cd) == nil && cd.Num == di.doc.CollectionNum {
			coll = &cd
		}
	}
	if coll == nil {
		return "", 0, "no collection document for number " + fmt.Sprint(di.doc.CollectionNum)
	}
	ctx := context.NewOrdaContext(gocontext.Background(), "oracle")
	doc := di.doc
	mgr := snapshot.NewManager(ctx, w.inst.mgr, &doc, coll)
	wasAuto := w.mongo.Auto
	w.mongo.Auto = true
	defer func() { w.mongo.Auto = wasAuto }()
	var view, errS string
	var last uint64
	done := make(chan struct{})
	go func() {
		defer close(done)
		defer func() {
			if x := recover(); x != nil {
				errS = fmt.Sprintf("panic: %v", x)
			}
		}()
		dt, l, err := mgr.GetLatestDatatype()
		if err != nil {
			errS = err.Error()
			return
		}
		last = l
		view = viewOfDT(dt)
	}()
	<-done
	return view, last, errS
}

// atQuiescence: the end-state oracles (C05 and the properties that borrow them).
func (m *monitors) atQuiescence(r *run) {
	w := r.w
	dts, _ := r.readStore()
	m.checkLog(r, dts, false, true)
	m.checkReader(r, dts)
	byKey := map[string]*dtInfo{}
	for _, duid := range sortedKeys(dts) {
		di := dts[duid]
		byKey[fmt.Sprintf("%d/%s", di.doc.CollectionNum, di.doc.Key)] = di
	}
	collNum := map[string]int32{}
	for _, d := range r.docsOf(schema.CollectionNameCollections) {
		var cd schema.CollectionDoc
		if decodeInto(d, &cd) == nil {
			collNum[cd.Name] = cd.Num
		}
	}
	type holder struct {
		a *actor
		d *dtState
	}
	groups := map[string][]holder{}
	for _, a := range w.actors {
		if a.gone {
			continue
		}
		if r.storm[a.name] {
			// its requests were cut off (it re-sent a refused request without end): what its other
			// datatypes missed since then is the simulator's doing, not the system's
			r.probe("storm-client-left-out")
			continue
		}
		for _, d := range a.dts {
			if d.dt.GetState() != model.StateOfDatatype_SUBSCRIBED {
				continue
			}
			k := fmt.Sprintf("%d/%s", collNum[a.collection], d.key)
			groups[k] = append(groups[k], holder{a, d})
		}
	}
	names := []string{"conv", "msg", "retry", "realtime", "rest", "entry", "iso", "serial", "wire"}
	oracleOf := map[string]string{"conv": "C05", "msg": "C07", "retry": "C08", "realtime": "C18", "rest": "C19", "entry": "C13", "iso": "C17", "serial": "C12", "wire": "C14"}
	failAll := func(suffix, fp, format string, a ...interface{}) {
		for _, f := range names {
			o := oracleOf[f] + "." + suffix
			switch f {
			case "msg":
				o = "C07.same-as-fault-free"
			case "retry":
				o = "C08.retry-converges"
			case "realtime":
				o = "C18.realtime-converges"
			case "rest":
				o = "C19.subscribers-converge"
			case "entry":
				o = "C13.first-state"
			case "iso":
				o = "C17.same-key-independent"
			case "serial":
				o = "C12.linearizable-outcome"
			case "wire":
				o = "C14.same-effect" // the operation as decoded by peers and by the server has the effect it had at its issuer
			}
			r.fail(f, o, fp, format, a...)
		}
	}
	for _, k := range sortedKeys(groups) {
		hs := groups[k]
		di := byKey[k]
		if di == nil {
			failAll("equals-server-rebuild", "no-datatype-doc", "clients hold a subscribed datatype for %s but the server stores no datatype document", k)
			continue
		}
		// every holder must carry the server's duid
		first := r.viewOf(hs[0].d)
		for _, h := range hs {
			if h.d.dt.GetDUID() != di.doc.DUID {
				failAll("clients-identical", "different-duid", "%s holds %s with datatype id %s but the server's datatype is %s", h.a.name, k, h.d.dt.GetDUID(), di.doc.DUID)
			}
			if v := r.viewOf(h.d); v != first {
				failAll("clients-identical", di.doc.Type+"/differ", "after drain %s and %s differ on %s:\n  %s: %s\n  %s: %s", hs[0].a.name, h.a.name, k, hs[0].a.name, clip(first, 500), h.a.name, clip(v, 500))
			}
		}
		n := uint64(len(di.ops))
		dt, errS := r.replay(di, n)
		if errS != "" {
			failAll("equals-log-replay", "replay-error", "replaying the stored log of %s fails: %s", k, errS)
			continue
		}
		rv := viewOfDT(dt)
		if rv != first {
			failAll("equals-log-replay", di.doc.Type+"/differ", "after drain the clients differ from a replay of the %d stored operations of %s:\n  clients: %s\n  replay : %s", n, k, clip(first, 500), clip(rv, 500))
		}
		sv, last, errS := r.serverRebuild(di)
		if errS != "" {
			failAll("equals-server-rebuild", "rebuild-error", "the server cannot rebuild %s: %s", k, errS)
			continue
		}
		if sv != first || last != n {
			failAll("equals-server-rebuild", di.doc.Type+"/differ", "the server's rebuild of %s (up to %d of %d) differs from the clients:\n  clients: %s\n  server : %s", k, last, n, clip(first, 500), clip(sv, 500))
		}
		// each client applied every foreign operation exactly once, in log order
		for _, h := range hs {
			var want []string
			for _, so := range di.ops {
				if so.op.ID.GetCUID() != h.a.cuid && so.op.OpType != model.TypeOfOperation_TRANSACTION {
					want = append(want, opKey(so.op))
				}
			}
			h.d.mu.Lock()
			got := append([]string{}, h.d.rops...)
			h.d.mu.Unlock()
			// a subscriber may have received a prefix as part of its subscribe response, which includes its own (none) — compare as sequences
			if strings.Join(got, ",") != strings.Join(want, ",") && r.on("conv") && !h.d.noRemote {
				// own operations re-delivered or foreign ones skipped/repeated
				r.fail("conv", "C05.remote-once-in-log-order", "sequence-differs", "%s: remote operations reported for %s are not the foreign operations of the log, once each, in log order:\n  log order: %v\n  reported : %v", h.a.name, k, want, got)
			}
		}
		r.probe("groups-compared")
	}
	if r.on("snap") {
		m.checkSnapshots(r, dts)
		m.checkCatchUp(r, dts)
	}
	if r.on("notify") {
		m.checkPublishes(r, dts)
	}
}
