// Package worker is the process that executes simulated runs. It is built as a test
// binary (engine B needs testing/synctest) and driven by the supervisor (cmd/verif)
// through a job file; results are streamed as JSON lines.
package worker

import (
	"encoding/json"

	"verif/sim/kernel"
)

type Job struct {
	Engine     string   `json:"engine"`
	Property   string   `json:"property"`
	Tier       string   `json:"tier"`
	Mode       string   `json:"mode"`      // seeds | plans | enum (systematic fault placement over base scenarios, engine B)
	FirstVar   int      `json:"first_var"` // enum: resume the first base scenario at this variant (after a crash of the process)
	MaxPairs   int      `json:"max_pairs"` // enum: sampled pairs of placements per base scenario
	BatchSeed  uint64   `json:"batch_seed"`
	First      int      `json:"first"`
	Stride     int      `json:"stride"`
	MaxRuns    int      `json:"max_runs"`
	DeadlineMs int64    `json:"deadline_ms"`
	Plans      []string `json:"plans"`
	Out        string   `json:"out"`
	Marker     string   `json:"marker"`
	Known      []string `json:"known"`
	Verbose    bool     `json:"verbose"`
	Samples    int      `json:"samples"`
	Twice      int      `json:"twice"` // every Twice-th run is executed twice and compared (0 = never)
}

// Line is one record of the result stream.
type Line struct {
	K       string          `json:"k"` // run | agg | done
	I       int             `json:"i,omitempty"`
	Seed    uint64          `json:"seed,omitempty"`
	Plan    *kernel.Plan    `json:"plan,omitempty"`
	Res     *kernel.Result  `json:"res,omitempty"`
	PlanRef string          `json:"plan_ref,omitempty"`
	Agg     *Agg            `json:"agg,omitempty"`
	Extra   json.RawMessage `json:"extra,omitempty"`
}

type Agg struct {
	Runs       int            `json:"runs"`
	Nontrivial int            `json:"nontrivial"`
	Faults     map[string]int `json:"faults"`
	Probes     map[string]int `json:"probes"`
	Known      map[string]int `json:"known"`
	SimNanos   int64          `json:"sim_ns"`
	Steps      int64          `json:"steps"`
	Hashes     []uint64       `json:"hashes"` // trace hashes of non-trivial runs
	States     []uint64       `json:"states"` // distinct state digests
	Inconcl    int            `json:"inconclusive"`
}

func RunSeed(batch uint64, prop string, idx int) uint64 {
	return kernel.Mix64(batch, kernel.HashString(prop), uint64(idx))
}
