package worker

import (
	"fmt"
	"os"
	"regexp"
	"sort"
	"strings"

	"verif/sim/kernel"
)

// Race reports in the race-detector variant of engine C. The scheduler's hand-over is invisible to
// the detector (raw futex in //go:norace code), which is the point: two accesses the program itself
// does not order are reported although they never overlap in time. The same blindness makes the
// harness's own bookkeeping look racy, so the process does not stop at the first report
// (GORACE halt_on_error=0 log_path=...): after every run the worker reads what the detector wrote
// meanwhile and keeps the reports in which an access is performed by orda code.

type raceLog struct {
	path string
	off  int64
}

func openRaceLog() *raceLog {
	p := os.Getenv("VERIF_RACELOG")
	if p == "" {
		return nil
	}
	return &raceLog{path: fmt.Sprintf("%s.%d", p, os.Getpid())}
}

var raceAccess = regexp.MustCompile(`^(Previous )?((Atomic )?[Rr]ead|(Atomic )?[Ww]rite|(atomic )?read|(atomic )?write) at `)
var ordaFrame = regexp.MustCompile(`github\.com/orda-io/orda/[^\s(]+`)

// newViolation returns the first report written since the last call whose two accesses are not both
// performed by harness code.
func (l *raceLog) newViolation(prop string) *kernel.Violation {
	if l == nil {
		return nil
	}
	b, err := os.ReadFile(l.path)
	if err != nil || int64(len(b)) <= l.off {
		return nil
	}
	fresh := string(b[l.off:])
	l.off = int64(len(b))
	for _, rep := range strings.Split(fresh, "==================") {
		if !strings.Contains(rep, "WARNING: DATA RACE") {
			continue
		}
		lines := strings.Split(rep, "\n")
		// the accessor of each of the two stacks: its first frame outside the Go runtime and standard
		// library (a map access shows up as runtime.mapaccess... called by somebody)
		var tops []string
		for i, ln := range lines {
			if !raceAccess.MatchString(strings.TrimSpace(ln)) {
				continue
			}
			for j := i + 1; j < len(lines); j++ {
				t := strings.TrimSpace(lines[j])
				if t == "" {
					break
				}
				if strings.HasPrefix(t, "/") {
					continue // file:line of the frame above
				}
				if strings.HasPrefix(t, "github.com/orda-io/orda/") || strings.HasPrefix(t, "verif/sim/") {
					tops = append(tops, t)
					break
				}
			}
		}
		if len(tops) < 2 {
			continue
		}
		ours := func(t string) bool {
			return strings.HasPrefix(t, "verif/sim/") || strings.HasPrefix(t, "github.com/orda-io/orda/client/pkg/simhook.")
		}
		if ours(tops[0]) || ours(tops[1]) {
			continue // the harness's own bookkeeping, or the hook plumbing it installs
		}
		var fs []string
		for _, t := range tops[:2] {
			fn := ordaFrame.FindString(t)
			if fn == "" {
				fn = t
				if i := strings.Index(fn, "("); i > 0 && !strings.HasPrefix(fn, "(") {
					fn = fn[:i]
				}
			}
			if i := strings.LastIndex(fn, "/"); i >= 0 {
				fn = fn[i+1:]
			}
			fs = append(fs, strings.TrimSuffix(fn, "()"))
		}
		sort.Strings(fs)
		msg := strings.TrimSpace(rep)
		if ls := strings.Split(msg, "\n"); len(ls) > 45 {
			msg = strings.Join(ls[:45], "\n")
		}
		return &kernel.Violation{Property: prop, Oracle: prop + ".no-race", Fingerprint: "race/" + strings.Join(fs, "+"), Message: msg}
	}
	return nil
}
