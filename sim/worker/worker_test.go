package worker

import (
	"bufio"
	"encoding/json"
	"fmt"
	"os"
	"testing"
	"time"

	"verif/sim/enga"
	"verif/sim/engb"
	"verif/sim/engc"
	"verif/sim/kernel"
)

type engine struct {
	gen  func(prop, tier string, seed uint64) *kernel.Plan
	exec func(t *testing.T, plan *kernel.Plan, known map[string]bool, verbose bool) *kernel.Result
}

var engines = map[string]engine{
	"A": {gen: enga.Gen, exec: func(_ *testing.T, p *kernel.Plan, k map[string]bool, v bool) *kernel.Result {
		return enga.Execute(p, k, v)
	}},
	"B": {gen: engb.Gen, exec: engb.Execute},
	"C": {gen: engc.Gen, exec: func(_ *testing.T, p *kernel.Plan, k map[string]bool, v bool) *kernel.Result {
		return engc.Execute(p, k, v)
	}},
}

func TestWorker(t *testing.T) {
	path := os.Getenv("VERIF_JOB")
	if path == "" {
		t.Skip("no VERIF_JOB")
	}
	b, err := os.ReadFile(path)
	if err != nil {
		fmt.Fprintln(os.Stderr, "HARNESS: cannot read job:", err)
		os.Exit(2)
	}
	var job Job
	if err := json.Unmarshal(b, &job); err != nil {
		fmt.Fprintln(os.Stderr, "HARNESS: bad job:", err)
		os.Exit(2)
	}
	eng, ok := engines[job.Engine]
	if !ok {
		fmt.Fprintln(os.Stderr, "HARNESS: unknown engine", job.Engine)
		os.Exit(2)
	}
	out, err := os.OpenFile(job.Out, os.O_CREATE|os.O_WRONLY|os.O_APPEND, 0o644)
	if err != nil {
		fmt.Fprintln(os.Stderr, "HARNESS: cannot open out:", err)
		os.Exit(2)
	}
	w := bufio.NewWriter(out)
	emit := func(l *Line) {
		jb, _ := json.Marshal(l)
		w.Write(jb)
		w.WriteByte('\n')
		w.Flush()
	}
	var marker *os.File
	if job.Marker != "" {
		marker, _ = os.OpenFile(job.Marker, os.O_CREATE|os.O_WRONLY, 0o644)
	}
	mark := func(i int) {
		if marker != nil {
			marker.WriteAt([]byte(fmt.Sprintf("%-12d", i)), 0)
		}
	}
	rl := openRaceLog()
	if rl != nil {
		inner := eng.exec
		eng.exec = func(t *testing.T, plan *kernel.Plan, known map[string]bool, verbose bool) *kernel.Result {
			res := inner(t, plan, known, verbose)
			if v := rl.newViolation(plan.Property); v != nil && res.Violation == nil {
				res.Violation = v
			}
			return res
		}
	}
	known := map[string]bool{}
	for _, k := range job.Known {
		known[k] = true
	}
	agg := &Agg{Faults: map[string]int{}, Probes: map[string]int{}, Known: map[string]int{}}
	seenHash := map[uint64]bool{}
	seenState := map[uint64]bool{}
	seenViol := map[string]int{}
	flush := func() {
		if agg.Runs == 0 {
			return
		}
		emit(&Line{K: "agg", Agg: agg})
		agg = &Agg{Faults: map[string]int{}, Probes: map[string]int{}, Known: map[string]int{}}
	}
	account := func(i int, plan *kernel.Plan, res *kernel.Result, sample bool) {
		agg.Runs++
		agg.SimNanos += res.SimNanos
		agg.Steps += int64(res.Steps)
		agg.Inconcl += res.Inconclusive
		for k, v := range res.Faults {
			agg.Faults[k] += v
		}
		for k, v := range res.Probes {
			agg.Probes[k] += v
		}
		for _, k := range res.Known {
			agg.Known[k]++
		}
		if res.Nontrivial && res.Violation == nil && len(res.Known) == 0 {
			if !seenHash[res.TraceHash] {
				seenHash[res.TraceHash] = true
				agg.Nontrivial++
				agg.Hashes = append(agg.Hashes, res.TraceHash)
			}
		}
		for _, s := range res.States {
			if !seenState[s] {
				seenState[s] = true
				agg.States = append(agg.States, s)
			}
		}
		if res.Violation != nil {
			k := res.Violation.Key()
			seenViol[k]++
			l := &Line{K: "run", I: i, Seed: plan.Seed, Res: res}
			if seenViol[k] <= 2 {
				l.Plan = plan
			}
			emit(l)
		} else if sample || job.Mode == "plans" {
			emit(&Line{K: "run", I: i, Seed: plan.Seed, Res: res, Plan: plan})
		}
	}
	if job.Mode == "plans" {
		for i, pf := range job.Plans {
			mark(i)
			pb, err := os.ReadFile(pf)
			if err != nil {
				fmt.Fprintln(os.Stderr, "HARNESS: cannot read plan:", err)
				os.Exit(2)
			}
			var plan kernel.Plan
			if err := json.Unmarshal(pb, &plan); err != nil {
				fmt.Fprintln(os.Stderr, "HARNESS: bad plan:", err)
				os.Exit(2)
			}
			res := eng.exec(t, &plan, known, job.Verbose)
			l := &Line{K: "run", I: i, Seed: plan.Seed, Res: res, PlanRef: pf}
			emit(l)
		}
		emit(&Line{K: "done"})
		return
	}
	stride := job.Stride
	if stride < 1 {
		stride = 1
	}
	if job.Mode == "enum" {
		// marker: "<base index> <variant index>"; the plan about to run is kept in <marker>.plan so that
		// the supervisor has it when the process dies under it
		markVar := func(b, v int, plan *kernel.Plan) {
			if marker != nil {
				marker.WriteAt([]byte(fmt.Sprintf("%-10d %-10d", b, v)), 0)
				pb, _ := json.Marshal(plan)
				_ = os.WriteFile(job.Marker+".plan.tmp", pb, 0o644)
				_ = os.Rename(job.Marker+".plan.tmp", job.Marker+".plan")
			}
		}
		nruns := 0
		expired := func() bool {
			return (job.DeadlineMs > 0 && time.Now().UnixMilli() >= job.DeadlineMs) || (job.MaxRuns > 0 && nruns >= job.MaxRuns)
		}
		nb := 0
		for b := job.First; !expired(); b += stride {
			seed := RunSeed(job.BatchSeed, job.Property+"/enum", b)
			base := engb.GenBase(job.Property, job.Tier, seed)
			skip := 0
			if b == job.First {
				skip = job.FirstVar
			}
			markVar(b, 0, base)
			res0 := eng.exec(t, base, known, false)
			if skip == 0 {
				res0.Probes["enum-base-scenarios"]++
				account(b*100000, base, res0, job.Samples > 0)
				nruns++
			}
			if res0.Violation != nil || len(res0.Known) > 0 {
				continue
			}
			vars := engb.Placements(job.Property, job.Tier, base, res0.EvCmds, job.MaxPairs)
			for j, v := range vars {
				if j+1 < skip {
					continue
				}
				if expired() {
					break
				}
				markVar(b, j+1, v)
				res := eng.exec(t, v, known, false)
				res.Probes["enum-placements"]++
				account(b*100000+j+1, v, res, job.Samples > 0)
				nruns++
			}
			if !expired() {
				agg.Probes["enum-base-scenarios-completed"]++
			}
			nb++
			flush()
		}
		flush()
		emit(&Line{K: "done"})
		return
	}
	n := 0
	samples := 0
	for i := job.First; ; i += stride {
		if job.MaxRuns > 0 && n >= job.MaxRuns {
			break
		}
		if job.DeadlineMs > 0 && time.Now().UnixMilli() >= job.DeadlineMs {
			break
		}
		mark(i)
		seed := RunSeed(job.BatchSeed, job.Property, i)
		plan := eng.gen(job.Property, job.Tier, seed)
		res := eng.exec(t, plan, known, false)
		if job.Twice > 0 && n%job.Twice == 0 && res.Violation == nil {
			res2 := eng.exec(t, plan, known, false)
			if res2.StateHash != res.StateHash || (res2.Violation == nil) != (res.Violation == nil) {
				res.Violation = &kernel.Violation{Property: job.Property, Oracle: job.Property + ".same-schedule-same-state",
					Fingerprint: "double-run", Message: "two executions of the same plan in one process produced different event logs (state depends on something other than the operations)"}
			}
		}
		sample := samples < job.Samples && res.Nontrivial && res.Violation == nil
		if sample {
			samples++
			res = eng.exec(t, plan, known, true) // again, with the event log, for the evidence file
		}
		account(i, plan, res, sample)
		n++
		if n%200 == 0 || (job.Engine != "A" && n%10 == 0) {
			flush()
		}
	}
	flush()
	emit(&Line{K: "done"})
}
