package ref

import (
	"sort"
	"strconv"
)

// Node kinds of a rendered document.
const (
	NPrim = iota
	NObj
	NArr
)

// DocNode is a node of the visible document tree.
type DocNode struct {
	Kind    int
	Cont    ContID // containers only
	Val     interface{}
	Keys    []string
	Kids    map[string]*DocNode
	Elems   []*DocNode
	ElemIDs []ElemID
}

// child is a value position before rendering.
type child struct {
	kind int
	cont ContID
	init interface{}
	ts   TS // timestamp of the creating operation (containers)
}

type docEval struct {
	byCont map[ContID][]*LOp
}

func mkChild(v interface{}, op OpKey, sub string, ts TS) *child {
	switch v.(type) {
	case map[string]interface{}:
		return &child{kind: NObj, cont: ContID{Op: op, Sub: sub}, init: v, ts: ts}
	case []interface{}:
		return &child{kind: NArr, cont: ContID{Op: op, Sub: sub}, init: v, ts: ts}
	}
	return &child{kind: NPrim, init: v}
}

// EvalDoc renders the visible document from a set of logical operations.
func EvalDoc(ops []*LOp) *DocNode {
	ev := &docEval{byCont: map[ContID][]*LOp{}}
	for _, o := range ops {
		switch o.Kind {
		case KDPut, KDRm, KDIns, KDDel, KDUpd:
			ev.byCont[o.Cont] = append(ev.byCont[o.Cont], o)
		}
	}
	return ev.render(&child{kind: NObj, cont: RootCont, init: map[string]interface{}{}})
}

func (ev *docEval) render(c *child) *DocNode {
	switch c.kind {
	case NPrim:
		return &DocNode{Kind: NPrim, Val: c.init}
	case NObj:
		type cand struct {
			ts    TS
			isPut bool
			ch    *child
		}
		win := map[string]cand{}
		consider := func(k string, x cand) {
			cur, ok := win[k]
			if !ok || cur.ts.Less(x.ts) {
				win[k] = x
			}
		}
		if m, ok := c.init.(map[string]interface{}); ok {
			for k, v := range m {
				consider(k, cand{c.ts, true, mkChild(v, c.cont.Op, c.cont.Sub+"/"+strconv.Quote(k), c.ts)})
			}
		}
		for _, o := range ev.byCont[c.cont] {
			switch o.Kind {
			case KDPut:
				consider(o.K, cand{o.TS, true, mkChild(o.Val, o.Key, "", o.TS)})
			case KDRm:
				consider(o.K, cand{o.TS, false, nil})
			}
		}
		n := &DocNode{Kind: NObj, Cont: c.cont, Kids: map[string]*DocNode{}}
		for k, x := range win {
			if x.isPut {
				n.Keys = append(n.Keys, k)
				n.Kids[k] = ev.render(x.ch)
			}
		}
		sort.Strings(n.Keys)
		return n
	default: // NArr
		b := newSeqBuilder()
		prev := Head
		if a, ok := c.init.([]interface{}); ok {
			for i, v := range a {
				sub := c.cont.Sub + "/" + strconv.Itoa(i)
				id := ElemID{c.cont.Op, sub}
				b.insert(id, prev, c.ts, i, mkChild(v, c.cont.Op, sub, c.ts))
				prev = id
			}
		}
		var own []*LOp
		for _, o := range ev.byCont[c.cont] {
			own = append(own, o)
		}
		tsOf := map[OpKey]TS{}
		for _, o := range own {
			tsOf[o.Key] = o.TS
		}
		applyListOps(b, own, func(v interface{}, op OpKey, sub string) interface{} {
			return mkChild(v, op, sub, tsOf[op])
		})
		n := &DocNode{Kind: NArr, Cont: c.cont}
		for _, s := range b.live() {
			n.ElemIDs = append(n.ElemIDs, s.ID)
			n.Elems = append(n.Elems, ev.render(s.Val.(*child)))
		}
		return n
	}
}

// JSON converts a rendered node to plain JSON data.
func (n *DocNode) JSON() interface{} {
	switch n.Kind {
	case NPrim:
		return n.Val
	case NObj:
		m := map[string]interface{}{}
		for _, k := range n.Keys {
			m[k] = n.Kids[k].JSON()
		}
		return m
	}
	a := make([]interface{}, 0, len(n.Elems))
	for _, e := range n.Elems {
		a = append(a, e.JSON())
	}
	return a
}

// Step is one hop of a path inside a document: a key (IsIdx false) or an array index.
type Step struct {
	IsIdx bool
	Key   string
	Idx   int
}

// Reach is a reachable container together with a path to it.
type Reach struct {
	Node *DocNode
	Path []Step
}

// Containers lists every reachable container in a canonical (depth-first, sorted-key) order.
func (n *DocNode) Containers() []Reach {
	var out []Reach
	var walk func(x *DocNode, p []Step)
	walk = func(x *DocNode, p []Step) {
		if x.Kind == NPrim {
			return
		}
		out = append(out, Reach{x, append([]Step(nil), p...)})
		if x.Kind == NObj {
			for _, k := range x.Keys {
				walk(x.Kids[k], append(p, Step{Key: k}))
			}
		} else {
			for i, e := range x.Elems {
				walk(e, append(p, Step{IsIdx: true, Idx: i}))
			}
		}
	}
	walk(n, nil)
	return out
}

// Find returns the reachable node of the given container, or nil.
func (n *DocNode) Find(c ContID) *DocNode {
	for _, r := range n.Containers() {
		if r.Node.Cont == c {
			return r.Node
		}
	}
	return nil
}
