// Package ref holds the reference models ("small executable specification") the
// oracles compare orda against. They are written from the property statements and
// are evaluated from the *set* of logical operations a replica has seen, so they
// are independent of arrival order by construction.
package ref

import (
	"fmt"
	"sort"
	"strconv"
)

// OpKey identifies an operation: issuing client and its per-datatype sequence number.
type OpKey struct {
	CUID string
	Seq  uint64
}

func (k OpKey) String() string { return fmt.Sprintf("%s#%d", k.CUID, k.Seq) }

// TS is the part of an operation timestamp the statements name: logical clock, then client id.
type TS struct {
	Lamport uint64
	CUID    string
}

func (a TS) Less(b TS) bool {
	if a.Lamport != b.Lamport {
		return a.Lamport < b.Lamport
	}
	return a.CUID < b.CUID
}

// ElemID identifies a list/array element: creating operation plus a position inside
// that operation's value (batch index, or sub-path for elements of nested arrays).
type ElemID struct {
	Op  OpKey
	Sub string
}

var Head = ElemID{}

// ContID identifies a document container (object or array).
type ContID struct {
	Root bool
	Op   OpKey
	Sub  string // "" for a directly put value, "#i" for batch element i, then "/k" per nesting level
}

var RootCont = ContID{Root: true}

func (c ContID) String() string {
	if c.Root {
		return "root"
	}
	return c.Op.String() + c.Sub
}

// Kinds of logical operation.
const (
	KNop  = "nop" // snapshot op / transaction header: consumes an id, changes nothing
	KInc  = "inc"
	KPut  = "put"
	KRm   = "rm"
	KIns  = "ins"
	KDel  = "del"
	KUpd  = "upd"
	KDPut = "dput"
	KDRm  = "drm"
	KDIns = "dins"
	KDDel = "ddel"
	KDUpd = "dupd"
)

// LOp is a logical operation as recorded by the harness when it issued the call.
type LOp struct {
	Key     OpKey
	TS      TS
	Kind    string
	Delta   int32         // inc
	K       string        // put/rm/dput/drm
	Val     interface{}   // put/dput (JSON value)
	Anchor  ElemID        // ins/dins
	Targets []ElemID      // del/upd/ddel/dupd
	Vals    []interface{} // ins/upd/dins/dupd
	Cont    ContID        // document ops: addressed container
}

// ---------------------------------------------------------------- counter

func EvalCounter(ops []*LOp) int32 {
	var v int32
	for _, o := range ops {
		if o.Kind == KInc {
			v += o.Delta // int32 wrap-around
		}
	}
	return v
}

// ---------------------------------------------------------------- map

type lww struct {
	ts    TS
	isPut bool
	val   interface{}
	op    *LOp
}

// EvalMap returns the visible map.
func EvalMap(ops []*LOp) map[string]interface{} {
	w := map[string]lww{}
	for _, o := range ops {
		switch o.Kind {
		case KPut, KRm:
			cur, ok := w[o.K]
			if !ok || cur.ts.Less(o.TS) {
				w[o.K] = lww{ts: o.TS, isPut: o.Kind == KPut, val: o.Val}
			}
		}
	}
	out := map[string]interface{}{}
	for k, x := range w {
		if x.isPut {
			out[k] = x.val
		}
	}
	return out
}

// ---------------------------------------------------------------- list (timestamped insertion tree)

type lelem struct {
	id      ElemID
	anchor  ElemID
	ts      TS
	ord     int // position inside its own operation (batch index), tie-break only
	val     interface{}
	valTS   TS
	deleted bool
	kids    []*lelem
}

// Slot is one visible list element.
type Slot struct {
	ID  ElemID
	Val interface{}
}

type seqBuilder struct {
	elems map[ElemID]*lelem
	order []*lelem
}

func newSeqBuilder() *seqBuilder { return &seqBuilder{elems: map[ElemID]*lelem{}} }

func (b *seqBuilder) insert(id, anchor ElemID, ts TS, ord int, val interface{}) {
	e := &lelem{id: id, anchor: anchor, ts: ts, ord: ord, val: val, valTS: ts}
	b.elems[id] = e
	b.order = append(b.order, e)
}

func (b *seqBuilder) update(id ElemID, ts TS, val interface{}) {
	if e, ok := b.elems[id]; ok && e.valTS.Less(ts) {
		e.val, e.valTS = val, ts
	}
}

func (b *seqBuilder) del(id ElemID) {
	if e, ok := b.elems[id]; ok {
		e.deleted = true
	}
}

// sequence returns all elements (live and deleted) in document order.
func (b *seqBuilder) sequence() []*lelem {
	var roots []*lelem
	for _, e := range b.order {
		e.kids = e.kids[:0]
	}
	for _, e := range b.order {
		if e.anchor == Head {
			roots = append(roots, e)
		} else if p, ok := b.elems[e.anchor]; ok {
			p.kids = append(p.kids, e)
		}
		// an element whose anchor is unknown cannot occur under causal delivery; it is dropped
	}
	var out []*lelem
	var walk func(ks []*lelem)
	walk = func(ks []*lelem) {
		sort.SliceStable(ks, func(i, j int) bool { // newest first
			if ks[i].ts != ks[j].ts {
				return ks[j].ts.Less(ks[i].ts)
			}
			return ks[i].ord < ks[j].ord
		})
		for _, k := range ks {
			out = append(out, k)
			walk(k.kids)
		}
	}
	walk(roots)
	return out
}

func (b *seqBuilder) live() []Slot {
	var out []Slot
	for _, e := range b.sequence() {
		if !e.deleted {
			out = append(out, Slot{e.id, e.val})
		}
	}
	return out
}

// EvalList returns the visible sequence of the list.
func EvalList(ops []*LOp) []Slot {
	b := newSeqBuilder()
	applyListOps(b, ops, func(v interface{}, _ OpKey, _ string) interface{} { return v })
	return b.live()
}

// applyListOps feeds ins/upd/del (or their document counterparts) to a builder.
func applyListOps(b *seqBuilder, ops []*LOp, mk func(v interface{}, op OpKey, sub string) interface{}) {
	// inserts first (an update/delete is always causally after its target's insert, but the
	// slice handed in is a set, not a sequence)
	for _, o := range ops {
		if o.Kind == KIns || o.Kind == KDIns {
			prev := o.Anchor
			for i, v := range o.Vals {
				id := ElemID{o.Key, "#" + strconv.Itoa(i)}
				b.insert(id, prev, o.TS, i, mk(v, o.Key, "#"+strconv.Itoa(i)))
				prev = id
			}
		}
	}
	for _, o := range ops {
		if o.Kind == KUpd || o.Kind == KDUpd {
			for i, t := range o.Targets {
				if i < len(o.Vals) {
					b.update(t, o.TS, mk(o.Vals[i], o.Key, "#"+strconv.Itoa(i)))
				}
			}
		}
	}
	for _, o := range ops {
		if o.Kind == KDel || o.Kind == KDDel {
			for _, t := range o.Targets {
				b.del(t)
			}
		}
	}
}

// SlotValues projects the values.
func SlotValues(s []Slot) []interface{} {
	out := make([]interface{}, 0, len(s))
	for _, x := range s {
		out = append(out, x.Val)
	}
	return out
}
