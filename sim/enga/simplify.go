package enga

import (
	"encoding/json"

	"verif/sim/kernel"
)

// Simplify returns one-change candidates of a plan for the shrinker's second phase.
func Simplify(p *kernel.Plan) []*kernel.Plan {
	evs, err := decodeEvents(p.Events)
	if err != nil {
		return nil
	}
	var cfg Config
	_ = json.Unmarshal(p.Config, &cfg)
	var out []*kernel.Plan
	emit := func(i int, e Ev) {
		cp := append([]Ev{}, evs...)
		cp[i] = e
		q := *p
		q.Events = encodeEvents(cp)
		out = append(out, &q)
	}
	var simp func(e Ev) []Ev
	simp = func(e Ev) []Ev {
		var vs []Ev
		switch e.T {
		case "local":
			if len(e.V) > 1 {
				x := e
				x.V = e.V[:len(e.V)/2]
				vs = append(vs, x)
				y := e
				y.V = e.V[:len(e.V)-1]
				vs = append(vs, y)
			}
			if !cfg.Tags {
				for j, v := range e.V {
					switch v.(type) {
					case map[string]interface{}, []interface{}:
						x := e
						x.V = append([]interface{}{}, e.V...)
						x.V[j] = "x"
						vs = append(vs, x)
					case string:
						if v != "x" {
							x := e
							x.V = append([]interface{}{}, e.V...)
							x.V[j] = "x"
							vs = append(vs, x)
						}
					}
				}
			}
			if e.A != 0 && !e.Raw {
				x := e
				x.A = 0
				vs = append(vs, x)
			}
			if e.B != 0 && !e.Raw {
				x := e
				x.B = 0
				vs = append(vs, x)
			}
			if e.C != 0 {
				x := e
				x.C = 0
				vs = append(vs, x)
			}
			if e.Via == 1 {
				x := e
				x.Via = 0
				vs = append(vs, x)
			}
		case "tx":
			for j := range e.Body {
				x := e
				x.Body = append(append([]Ev{}, e.Body[:j]...), e.Body[j+1:]...)
				vs = append(vs, x)
			}
			for j, b := range e.Body {
				for _, sb := range simp(b) {
					x := e
					x.Body = append([]Ev{}, e.Body...)
					x.Body[j] = sb
					vs = append(vs, x)
				}
			}
		case "deliver":
			if e.N > 1 {
				x := e
				x.N = 1
				vs = append(vs, x)
			}
		}
		return vs
	}
	for i, e := range evs {
		for _, v := range simp(e) {
			emit(i, v)
		}
	}
	return out
}
