package enga

import (
	"fmt"
	"os"
	"strconv"
	"testing"
)

func TestSmoke(t *testing.T) {
	prop := os.Getenv("P")
	if prop == "" {
		prop = "C01"
	}
	n, _ := strconv.Atoi(os.Getenv("N"))
	if n == 0 {
		n = 200
	}
	base, _ := strconv.Atoi(os.Getenv("BASE"))
	found := map[string]int{}
	nt := 0
	for i := 0; i < n; i++ {
		seed := uint64(base + i)
		plan := Gen(prop, "quick", seed)
		res := Execute(plan, nil, false)
		if res.Nontrivial {
			nt++
		}
		if res.Violation != nil {
			k := res.Violation.Key()
			found[k]++
			if found[k] == 1 {
				fmt.Printf("seed %d: %v\n", seed, res.Violation)
				if os.Getenv("V") != "" {
					res2 := Execute(plan, nil, true)
					for _, l := range res2.Log {
						fmt.Println("   ", l)
					}
				}
			}
		}
	}
	fmt.Println("nontrivial", nt, "of", n)
	for k, v := range found {
		fmt.Println(v, k)
	}
}
