package enga

import (
	"fmt"
	"os"
	"strconv"
	"testing"
	"time"

	"verif/sim/kernel"
)

// TestWide runs the first N wide-batch plans of C15 (see genWide) and reports what they cost.
func TestWide(t *testing.T) {
	n, _ := strconv.Atoi(os.Getenv("N"))
	if n == 0 {
		n = 3
	}
	found := 0
	for seed := uint64(0); found < n && seed < 100000; seed++ {
		if !kernel.NewRng(seed).Derive("wide").Chance(1, wideEvery) {
			continue
		}
		found++
		plan := Gen("C15", "quick", seed)
		t0 := time.Now()
		res := Execute(plan, nil, false)
		fmt.Printf("seed %d: %d events, %v, steps %d, nontrivial %v, probes %v\n", seed, len(plan.Events), time.Since(t0), res.Steps, res.Nontrivial, res.Probes)
		if res.Violation != nil {
			msg := fmt.Sprint(res.Violation)
			if len(msg) > 600 {
				msg = msg[:600]
			}
			t.Errorf("seed %d: %s", seed, msg)
		}
	}
}
