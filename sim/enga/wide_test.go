package enga

import (
	"fmt"
	"os"
	"strconv"
	"testing"
	"time"

	"verif/sim/kernel"
)

// TestWide runs the first N wide-batch plans of C15 (see genWide) and reports what they cost.
func TestWide(t *testing.T) {
	n, _ := strconv.Atoi(os.Getenv("N"))
	if n == 0 {
		n = 3
	}
	found := 0
	for seed := uint64(0); found < n && seed < 100000; seed++ {
		if !kernel.NewRng(seed).Derive("wide").Chance(1, wideEvery) {
			continue
		}
		found++
		plan := Gen("C15", "quick", seed)
		t0 := time.Now()
		res := Execute(plan, nil, os.Getenv("V") != "")
		fmt.Printf("seed %d: %d events, %v, steps %d, nontrivial %v, probes %v\n", seed, len(plan.Events), time.Since(t0), res.Steps, res.Nontrivial, res.Probes)
		fmt.Printf("digest seed %d: trace %x state %x\n", seed, res.TraceHash, res.StateHash)
		if res.Violation != nil {
			msg := fmt.Sprint(res.Violation)
			if len(msg) > 600 {
				msg = msg[:600]
			}
			t.Errorf("seed %d: %s", seed, msg)
		}
	}
}

// TestWideLogSize: what a verbose wide run hands to the supervisor.
func TestWideLogSize(t *testing.T) {
	seed := uint64(160)
	if v, err := strconv.ParseUint(os.Getenv("SEED"), 10, 64); err == nil {
		seed = v
	}
	plan := Gen("C15", "quick", seed)
	t0 := time.Now()
	res := Execute(plan, nil, true)
	fmt.Printf("verbose run of seed %d: %v, %d events\n", seed, time.Since(t0), len(plan.Events))
	n, longest := 0, 0
	for _, l := range res.Log {
		n += len(l)
		if len(l) > longest {
			longest = len(l)
		}
	}
	fmt.Printf("log lines %d, bytes %d, longest %d, states %d\n", len(res.Log), n, longest, len(res.States))
}
