package enga

import (
	"encoding/json"
	"fmt"
	"runtime"
	"strings"

	"github.com/orda-io/orda/client/pkg/iface"
	ordalog "github.com/orda-io/orda/client/pkg/log"
	"github.com/orda-io/orda/client/pkg/model"
	"github.com/orda-io/orda/client/pkg/orda"
	"github.com/orda-io/orda/client/pkg/simhook"
	"github.com/sirupsen/logrus"
	"google.golang.org/protobuf/proto"

	"verif/sim/kernel"
	"verif/sim/ref"
)

type logEntry struct {
	op   *model.Operation
	lop  *ref.LOp
	from int
	unit int // entries of one transaction share a unit number
}

type api struct {
	cnt orda.CounterInTx
	mp  orda.MapInTx
	li  orda.ListInTx
	doc orda.DocumentInTx
}

type docHandle struct {
	doc  orda.Document
	cont ref.ContID
	kind int
}

type replica struct {
	idx       int
	cuid      string
	client    orda.Client
	dt        iface.Datatype
	api       api
	joined    bool
	nOwn      int // own model ops known to the harness
	pushed    int
	recv      int
	seen      []*ref.LOp
	seenKeys  map[ref.OpKey]bool
	own       []*ref.LOp // parallel to own model ops
	ownUnit   []int
	lastSeq   uint64
	maxLam    uint64 // greatest lamport among ops applied (C15)
	handles   []docHandle
	tw        *twin
	lastCalls []func(api) (interface{}, error)
	dirty     bool
	// cached reference
	refJSON string
	refSize int
	refDoc  *ref.DocNode
	refList []ref.Slot
	refMap  map[string]interface{}
	refCnt  int32
}

type run struct {
	prop     string
	cfg      Config
	uid      *kernel.Rng
	reps     []*replica
	log      []*logEntry
	key      string
	duid     string
	typeOf   model.TypeOfDatatype
	step     int
	unitSeq  int
	res      *kernel.Result
	trace    *kernel.Hasher
	slog     *kernel.Hasher
	states   map[uint64]bool
	viol     *kernel.Violation
	known    map[string]bool
	tags     *tagOracle
	verbose  bool
	conflict bool
	patched  bool
}

type abortRun struct{}

func init() {
	simhook.LoggerFunc = func(l *logrus.Logger) {
		l.SetLevel(logrus.PanicLevel)
		l.SetReportCaller(false)
	}
	// the package-level logger was created before the hook could be set
	ordalog.Logger.Logger.SetLevel(logrus.PanicLevel)
	ordalog.Logger.Logger.SetReportCaller(false)
}

func (r *run) on(family string) bool { return r.cfg.Oracles[family] }

// fail records a violation (first one wins) and aborts the run.
func (r *run) fail(family, oracle, fp, format string, a ...interface{}) {
	if !r.on(family) {
		return
	}
	v := &kernel.Violation{Property: r.prop, Oracle: oracle, Fingerprint: fp, Message: fmt.Sprintf(format, a...), Step: r.step}
	if r.known[v.Key()] {
		// a listed finding: note it, taint the run, stop the run (state is no longer trustworthy)
		r.res.Known = append(r.res.Known, v.Key())
		panic(abortRun{})
	}
	r.viol = v
	panic(abortRun{})
}

func (r *run) probe(name string) { r.res.Probes[name]++ }
func (r *run) logf(format string, a ...interface{}) {
	if r.verbose {
		r.res.Log = append(r.res.Log, fmt.Sprintf("%03d ", r.step)+fmt.Sprintf(format, a...))
	}
}

// safely runs f and converts a panic from orda code into (message, fingerprint).
func safely(f func()) (pmsg string, pfp string) {
	defer func() {
		if x := recover(); x != nil {
			if _, ok := x.(abortRun); ok {
				panic(x)
			}
			pmsg = fmt.Sprint(x)
			pfp = panicSite()
		}
	}()
	f()
	return "", ""
}

func panicSite() string {
	pcs := make([]uintptr, 64)
	n := runtime.Callers(3, pcs)
	frames := runtime.CallersFrames(pcs[:n])
	for {
		fr, more := frames.Next()
		if strings.Contains(fr.Function, "orda-io/orda/") {
			fn := fr.Function
			if i := strings.LastIndex(fn, "/"); i >= 0 {
				fn = fn[i+1:]
			}
			return fn
		}
		if !more {
			break
		}
	}
	return "unknown"
}

func kindType(kind string) model.TypeOfDatatype {
	switch kind {
	case "counter":
		return model.TypeOfDatatype_COUNTER
	case "map":
		return model.TypeOfDatatype_MAP
	case "list":
		return model.TypeOfDatatype_LIST
	}
	return model.TypeOfDatatype_DOCUMENT
}

func mkAPI(d interface{}) api {
	var a api
	switch x := d.(type) {
	case orda.Counter:
		a.cnt = x
	case orda.Map:
		a.mp = x
	case orda.List:
		a.li = x
	case orda.Document:
		a.doc = x
	}
	return a
}

func cloneOp(op *model.Operation) *model.Operation {
	b, err := proto.Marshal(op)
	if err != nil {
		panic(err)
	}
	var o model.Operation
	if err := proto.Unmarshal(b, &o); err != nil {
		panic(err)
	}
	return &o
}

// Execute runs one plan and returns its result. It never panics on a SUT fault.
func Execute(plan *kernel.Plan, known map[string]bool, verbose bool) (res *kernel.Result) {
	var cfg Config
	if err := json.Unmarshal(plan.Config, &cfg); err != nil {
		panic("bad config: " + err.Error())
	}
	evs, err := decodeEvents(plan.Events)
	if err != nil {
		panic("bad events: " + err.Error())
	}
	r := &run{prop: plan.Property, cfg: cfg, uid: kernel.NewRng(plan.Seed).Derive("uids"),
		res:   &kernel.Result{Faults: map[string]int{}, Probes: map[string]int{}},
		trace: kernel.NewHasher(), slog: kernel.NewHasher(), states: map[uint64]bool{}, known: known, verbose: verbose,
		key: "K1", typeOf: kindType(cfg.Kind)}
	if cfg.N < 1 {
		cfg.N, r.cfg.N = 1, 1
	}
	if cfg.Tags {
		r.tags = newTagOracle()
	}
	simhook.UIDFunc = func() (string, bool) { return r.uid.UID(), true }
	defer func() { simhook.UIDFunc = nil }()
	defer func() {
		if x := recover(); x != nil {
			if _, ok := x.(abortRun); !ok {
				panic(x)
			}
		}
		r.res.Violation = r.viol
		r.res.Steps = r.step
		r.res.TraceHash = r.trace.Sum()
		r.res.StateHash = r.slog.Sum()
		for s := range r.states {
			r.res.States = append(r.res.States, s)
		}
		r.res.Nontrivial = r.nontrivial()
		res = r.res
	}()
	r.setup()
	for i, e := range evs {
		r.step = i + 1
		r.dispatch(e)
	}
	r.step = len(evs) + 1
	r.quiesce()
	return
}

func (r *run) nontrivial() bool {
	switch r.prop {
	case "C03":
		return r.res.Probes["local-ok"] >= 3
	case "C09":
		return r.res.Probes["tx-commit"]+r.res.Probes["tx-rollback"] >= 1
	case "C10":
		return r.res.Probes["twin-made"] >= 1 && r.res.Probes["twin-steps"] >= 1
	case "C19":
		return r.res.Probes["patch-nonempty"] >= 1
	}
	return r.conflict
}

func (r *run) setup() {
	for i := 0; i < r.cfg.N; i++ {
		r.reps = append(r.reps, &replica{idx: i, seenKeys: map[ref.OpKey]bool{}, dirty: true})
	}
	p := r.reps[0]
	p.client = orda.NewClient(orda.NewLocalClientConfig("c"), "r0")
	var d interface{}
	if msg, fp := safely(func() { d = p.client.CreateDatatype(r.key, r.typeOf, nil) }); msg != "" {
		r.fail("nopanic", r.prop+".no-panic", fp, "panic creating datatype: %s", msg)
	}
	p.dt = d.(iface.Datatype)
	p.api = mkAPI(d)
	p.joined = true
	p.cuid = p.dt.GetCUID()
	r.duid = p.dt.GetDUID()
	r.collectOwn(p, nil, false) // the snapshot operation
	r.push(p)
}

func (r *run) rep(i int) *replica {
	if i < 0 {
		i = -i
	}
	p := r.reps[i%len(r.reps)]
	if !p.joined {
		r.join(p)
	}
	return p
}

func (r *run) dispatch(e Ev) {
	r.trace.Str(e.T).Str(e.Op).Int(e.R % len(r.reps))
	switch e.T {
	case "local":
		if r.patched {
			return
		}
		p := r.rep(e.R)
		p.lastCalls = nil
		r.local(p, p.api, e, nil)
		r.afterStep(p)
	case "burst":
		// a long offline period: more than a thousand operations wait for the next push, and a
		// transaction sits where the thousand-and-twenty-fourth falls
		if r.patched || (r.cfg.Kind != "counter" && r.cfg.Kind != "map") {
			return
		}
		p := r.rep(e.R)
		p.lastCalls = nil
		n := 1000 + mod(e.N, 40)
		for i := 0; i < n; i++ {
			b := Ev{T: "local", R: e.R, Op: "inc", D: int32(i%7 + 1), K: fmt.Sprintf("b%d", i%3), V: []interface{}{float64(i)}}
			if r.cfg.Kind == "map" {
				b.Op = "put"
			}
			r.local(p, p.api, b, nil)
		}
		r.probe("burst")
		r.afterStep(p)
		for k := 0; k < 3; k++ {
			tx := Ev{T: "tx", R: e.R}
			for j := 0; j < 12; j++ {
				b := Ev{T: "local", R: e.R, Op: "inc", D: int32(j + 1), K: fmt.Sprintf("b%d", j%3), V: []interface{}{float64(j)}}
				if r.cfg.Kind == "map" {
					b.Op = "put"
				}
				tx.Body = append(tx.Body, b)
			}
			r.tx(p, tx)
			r.afterStep(p)
		}
	case "tx":
		if r.patched {
			return
		}
		p := r.rep(e.R)
		p.lastCalls = nil
		r.tx(p, e)
		r.afterStep(p)
	case "push":
		p := r.rep(e.R)
		r.push(p)
	case "deliver":
		p := r.rep(e.R)
		n := e.N
		if n <= 0 {
			n = 1
		}
		r.deliver(p, n, false)
		r.afterStep(p)
	case "join":
		p := r.reps[abs(e.R)%len(r.reps)]
		if !p.joined {
			r.join(p)
		}
	case "quiesce":
		r.quiesce()
	case "twin":
		p := r.rep(e.R)
		r.makeTwin(p, e.M)
	case "torn":
		p := r.rep(e.R)
		r.torn(p, e)
		r.afterStep(p)
	case "patch":
		p := r.rep(e.R)
		r.patch(p, e)
	}
}

func abs(i int) int {
	if i < 0 {
		return -i
	}
	return i
}

// join makes p a subscriber exactly as the server's subscribe response does.
func (r *run) join(p *replica) {
	p.client = orda.NewClient(orda.NewLocalClientConfig("c"), fmt.Sprintf("r%d", p.idx))
	var d interface{}
	msg, fp := safely(func() {
		switch r.typeOf {
		case model.TypeOfDatatype_COUNTER:
			d = p.client.SubscribeCounter(r.key, nil)
		case model.TypeOfDatatype_MAP:
			d = p.client.SubscribeMap(r.key, nil)
		case model.TypeOfDatatype_LIST:
			d = p.client.SubscribeList(r.key, nil)
		default:
			d = p.client.SubscribeDocument(r.key, nil)
		}
	})
	if msg != "" {
		r.fail("nopanic", r.prop+".no-panic", fp, "panic subscribing: %s", msg)
	}
	p.dt = d.(iface.Datatype)
	p.api = mkAPI(d)
	p.cuid = p.dt.GetCUID()
	ops := make([]*model.Operation, 0, len(r.log))
	for _, le := range r.log {
		ops = append(ops, cloneOp(le.op))
	}
	opt := model.PushPullBitNormal
	opt.SetSubscribeBit()
	pack := &model.PushPullPack{Key: r.key, DUID: r.duid, Option: uint32(opt), Type: r.typeOf,
		CheckPoint: &model.CheckPoint{Sseq: uint64(len(r.log)), Cseq: 0}, Operations: ops}
	if msg, fp := safely(func() { p.dt.ApplyPushPullPack(pack) }); msg != "" {
		r.fail("nopanic", r.prop+".no-panic", fp, "panic applying subscribe pack: %s", msg)
	}
	p.joined = true
	p.recv = len(r.log)
	for _, le := range r.log {
		r.see(p, le.lop)
	}
	r.probe("join")
	r.logf("join r%d with %d log entries", p.idx, len(r.log))
	r.afterStep(p)
}

func (r *run) see(p *replica, l *ref.LOp) {
	if l == nil || p.seenKeys[l.Key] {
		return
	}
	p.seenKeys[l.Key] = true
	p.seen = append(p.seen, l)
	if l.TS.Lamport > p.maxLam {
		p.maxLam = l.TS.Lamport
	}
	p.dirty = true
}

// collectOwn reads the operations p emitted since the last look and pairs them with the
// logical operations the harness expected (nil entries → id-consuming no-ops).
func (r *run) collectOwn(p *replica, expect []*ref.LOp, isTx bool) []*model.Operation {
	var pack *model.PushPullPack
	if msg, fp := safely(func() { pack = p.dt.CreatePushPullPack() }); msg != "" {
		r.fail("nopanic", r.prop+".no-panic", fp, "panic in CreatePushPullPack: %s", msg)
	}
	all := pack.Operations
	if len(all) < p.nOwn {
		r.fail("ids", "C15.seq-gapless", "buffer-shrank", "r%d: operations awaiting push shrank from %d to %d", p.idx, p.nOwn, len(all))
		r.fail("plain", "C03.no-id-gap", "buffer-shrank", "r%d: operations awaiting push shrank from %d to %d", p.idx, p.nOwn, len(all))
		p.nOwn = len(all)
	}
	fresh := all[p.nOwn:]
	want := len(expect)
	if isTx && want > 0 {
		want++ // header
	}
	if expect == nil && !isTx {
		want = len(fresh) // setup: whatever creation emitted
	}
	if len(fresh) != want {
		fam, orc := "ref", r.prop+".emitted-count"
		if r.on("tx") {
			fam, orc = "tx", "C09.unit-contiguous"
		} else if r.on("plain") {
			fam, orc = "plain", "C03.error-has-no-effect"
		}
		r.fail(fam, orc, "emitted-count", "r%d: expected %d new operations awaiting push, found %d", p.idx, want, len(fresh))
	}
	unit := 0
	if isTx && len(fresh) > 0 {
		r.unitSeq++
		unit = r.unitSeq
	}
	for i, op := range fresh {
		id := op.ID
		// C15: per-client sequence numbers 1,2,3,... without gaps
		if id.GetSeq() != p.lastSeq+1 {
			r.fail("ids", "C15.seq-gapless", "gap", "r%d: operation %d has seq %d after %d", p.idx, i, id.GetSeq(), p.lastSeq)
			r.fail("plain", "C03.no-id-gap", "gap", "r%d: operation has seq %d after %d", p.idx, id.GetSeq(), p.lastSeq)
			r.fail("tx", "C09.rollback-exact", "next-id", "r%d: operation has seq %d after %d", p.idx, id.GetSeq(), p.lastSeq)
		}
		p.lastSeq = id.GetSeq()
		if id.GetCUID() != p.cuid {
			r.fail("ids", "C15.seq-gapless", "foreign-cuid", "r%d: emitted operation carries cuid %s", p.idx, id.GetCUID())
		}
		// C15: ordered after everything the replica has applied
		if id.GetLamport() <= p.maxLam && !(expect == nil && !isTx) {
			r.fail("ids", "C15.after-everything-seen", "lamport-not-greater", "r%d: new operation lamport %d <= %d already applied", p.idx, id.GetLamport(), p.maxLam)
		}
		var l *ref.LOp
		li := i
		if isTx {
			li = i - 1
		}
		if li >= 0 && li < len(expect) && expect[li] != nil {
			l = expect[li]
		} else {
			l = &ref.LOp{Kind: ref.KNop}
		}
		l.Key = ref.OpKey{CUID: id.GetCUID(), Seq: id.GetSeq()}
		l.TS = ref.TS{Lamport: id.GetLamport(), CUID: id.GetCUID()}
		p.own = append(p.own, l)
		p.ownUnit = append(p.ownUnit, unit)
		r.see(p, l)
	}
	if isTx && len(fresh) > 0 {
		r.checkUnit(p, fresh)
	}
	p.nOwn = len(all)
	return fresh
}

func (r *run) push(p *replica) {
	var pack *model.PushPullPack
	if msg, fp := safely(func() { pack = p.dt.CreatePushPullPack() }); msg != "" {
		r.fail("nopanic", r.prop+".no-panic", fp, "panic in CreatePushPullPack: %s", msg)
	}
	ops := pack.Operations
	for i := p.pushed; i < len(ops) && i < len(p.own); i++ {
		r.log = append(r.log, &logEntry{op: cloneOp(ops[i]), lop: p.own[i], from: p.idx, unit: p.ownUnit[i]})
	}
	if len(ops) > p.pushed {
		r.probe("push")
	}
	p.pushed = len(ops)
}

// deliver gives p the next n foreign units of the log (a transaction counts as one unit).
func (r *run) deliver(p *replica, n int, all bool) {
	var batch []*model.Operation
	var lops []*ref.LOp
	i := p.recv
	units := 0
	for i < len(r.log) && (all || units < n) {
		le := r.log[i]
		j := i + 1
		if le.unit != 0 {
			for j < len(r.log) && r.log[j].unit == le.unit {
				j++
			}
		}
		if le.from != p.idx {
			for k := i; k < j; k++ {
				batch = append(batch, cloneOp(r.log[k].op))
				lops = append(lops, r.log[k].lop)
			}
			units++
		}
		i = j
	}
	p.recv = i
	if len(batch) == 0 {
		return
	}
	// unseen foreign ops while p has unpushed/unseen-by-others own ops → genuine concurrency
	if p.pushed < p.nOwn || r.othersBehind(p) {
		r.conflict = true
	}
	exact := make([]*model.Operation, len(batch)) // len == cap, as a freshly decoded message has
	copy(exact, batch)
	var err error
	msg, fp := safely(func() {
		_, e := p.dt.ReceiveRemoteModelOperations(exact, true)
		if e != nil {
			err = e
		}
	})
	if msg != "" {
		r.fail("nopanic", r.prop+".no-panic", fp, "r%d: panic applying %d remote operations: %s", p.idx, len(exact), msg)
	}
	if err != nil {
		r.fail("ref", r.prop+".remote-apply-error", "error", "r%d: ReceiveRemoteModelOperations returned %v", p.idx, err)
		r.fail("tx", "C09.remote-all", "error", "r%d: ReceiveRemoteModelOperations returned %v", p.idx, err)
	}
	for _, l := range lops {
		r.see(p, l)
	}
	r.probe("deliver")
	if p.tw != nil {
		r.twinRemote(p, batch)
	}
}

func (r *run) convName() string {
	if r.prop == "C19" {
		return "C19.peers-converge"
	}
	return "C01.quiescent-equal"
}

func (r *run) othersBehind(p *replica) bool {
	for _, q := range r.reps {
		if q != p && q.joined && (q.recv < len(r.log) || q.pushed < q.nOwn) {
			return true
		}
	}
	return false
}

// quiesce: everybody pushes, everybody receives everything; then the convergence oracles.
func (r *run) quiesce() {
	r.trace.Str("Q")
	for _, p := range r.reps {
		if p.joined {
			r.push(p)
		}
	}
	for _, p := range r.reps {
		if p.joined {
			r.deliver(p, 0, true)
			r.afterStep(p)
		}
	}
	r.probe("quiesce")
	var first *replica
	var fs *obs
	for _, p := range r.reps {
		if !p.joined {
			continue
		}
		o := r.observe(p)
		if first == nil {
			first, fs = p, o
			continue
		}
		if d := fs.diff(o); d != "" {
			r.fail("conv", r.convName(), r.cfg.Kind+"/"+d, "replicas r%d and r%d differ in %s after receiving the same %d operations:\n  r%d: %s\n  r%d: %s",
				first.idx, p.idx, d, len(r.log), first.idx, fs.brief(), p.idx, o.brief())
		}
	}
	if first != nil && (r.on("conv") || r.on("ref")) {
		r.serverCopy(fs)
	}
}

// serverCopy rebuilds the datatype the way the server's snapshot manager does and compares.
func (r *run) serverCopy(want *obs) {
	c := orda.NewClient(orda.NewLocalClientConfig("c"), "orda-server")
	var dt iface.Datatype
	ops := make([]*model.Operation, 0, len(r.log))
	for _, le := range r.log {
		ops = append(ops, cloneOp(le.op))
	}
	var err error
	msg, fp := safely(func() {
		dt = c.CreateDatatype(r.key, r.typeOf, nil).(iface.Datatype)
		dt.SetDUID(r.duid)
		_, e := dt.ReceiveRemoteModelOperations(ops, false)
		if e != nil {
			err = e
		}
	})
	if msg != "" {
		r.fail("nopanic", r.prop+".no-panic", fp, "panic rebuilding from the log: %s", msg)
	}
	if err != nil {
		r.fail("conv", r.convName(), r.cfg.Kind+"/log-replay-error", "log replay failed: %v", err)
	}
	tmp := &replica{idx: -1, dt: dt, api: mkAPI(dt)}
	o := r.observeInst(tmp)
	if d := want.diff(o); d != "" {
		r.fail("conv", r.convName(), r.cfg.Kind+"/log-replay-"+d, "log-replay copy differs from replicas in %s:\n  replicas: %s\n  copy    : %s", d, want.brief(), o.brief())
	}
	if r.on("ref") {
		var all []*ref.LOp
		for _, le := range r.log {
			if le.lop != nil {
				all = append(all, le.lop)
			}
		}
		tmp.seen = all
		tmp.dirty = true
		r.compareRef(tmp, o, "server-copy")
	}
}
