package enga

import (
	"encoding/json"
	"fmt"
	"strings"

	"github.com/orda-io/orda/client/pkg/errors"
	"github.com/orda-io/orda/client/pkg/iface"
	"github.com/orda-io/orda/client/pkg/model"
	"github.com/orda-io/orda/client/pkg/orda"

	"verif/sim/kernel"
)

// twin is a fresh instance restored from p's exported meta+snapshot (C10).
type twin struct {
	mode string // server | rollback
	rep  *replica
}

func canonSnapshot(kind string, snap []byte) string {
	// order-insensitive where the format is a set (document node list)
	var x interface{}
	if err := json.Unmarshal(snap, &x); err != nil {
		return "!" + err.Error()
	}
	if kind == "doc" {
		if m, ok := x.(map[string]interface{}); ok {
			if nm, ok := m["nm"].([]interface{}); ok {
				strs := make([]string, len(nm))
				for i, n := range nm {
					strs[i] = kernel.Canon(n)
				}
				sortStrings(strs)
				return kernel.Canon(strs)
			}
		}
	}
	return kernel.Canon(x)
}

func sortStrings(s []string) {
	for i := 1; i < len(s); i++ {
		for j := i; j > 0 && s[j] < s[j-1]; j-- {
			s[j], s[j-1] = s[j-1], s[j]
		}
	}
}

func (r *run) makeTwin(p *replica, mode string) {
	if mode != "rollback" {
		mode = "server"
	}
	var meta, snap []byte
	var err error
	msg, fp := safely(func() {
		m, s, e := p.dt.GetMetaAndSnapshot()
		meta, snap = m, s
		if e != nil {
			err = e
		}
	})
	if msg != "" {
		r.fail("twin", "C10.export", "panic/"+fp, "r%d: GetMetaAndSnapshot panicked: %s", p.idx, msg)
		panic(abortRun{})
	}
	if err != nil {
		r.fail("twin", "C10.export", "error", "r%d: GetMetaAndSnapshot failed: %v", p.idx, err)
		return
	}
	c := orda.NewClient(orda.NewLocalClientConfig("c"), "twin")
	var dt iface.Datatype
	msg, fp = safely(func() {
		dt = c.CreateDatatype(r.key, r.typeOf, nil).(iface.Datatype)
		if mode == "server" {
			dt.SetDUID(r.duid)
			if e := dt.SetMetaAndSnapshot(meta, snap); e != nil {
				err = e
			}
			dt.ResetWired()
		} else {
			dt.ResetWired()
			if e := dt.SetMetaAndSnapshot(meta, snap); e != nil {
				err = e
			}
			var mv struct {
				OpID *model.OperationID
			}
			_ = json.Unmarshal(meta, &mv)
			if mv.OpID != nil {
				dt.SetCheckPoint(0, mv.OpID.GetSeq())
			}
		}
	})
	if err == nil && msg == "" && mode == "rollback" {
		// importing = what the subscribe path does after installing a snapshot: the transaction
		// layer must take the imported state as its rollback point
		if rt, ok := dt.(interface{ ResetTransaction() errors.OrdaError }); ok {
			m2, _ := safely(func() {
				if e := rt.ResetTransaction(); e != nil {
					err = e
				}
			})
			msg = m2
		}
	}
	if msg != "" {
		r.fail("twin", "C10.import", "panic/"+fp, "r%d: importing the exported snapshot panicked: %s\n snapshot: %s", p.idx, msg, string(snap))
		panic(abortRun{})
	}
	if err != nil {
		r.fail("twin", "C10.import", "error", "r%d: importing the exported snapshot failed: %v", p.idx, err)
		return
	}
	tw := &twin{mode: mode, rep: &replica{idx: 100 + p.idx, dt: dt, api: mkAPI(dt), joined: true, cuid: p.cuid}}
	p.tw = tw
	r.probe("twin-made")
	r.probe("twin-" + mode)
	// re-export must be equivalent
	var snap2 []byte
	msg, fp = safely(func() { _, snap2, _ = dt.GetMetaAndSnapshot() })
	if msg != "" {
		r.fail("twin", "C10.reexport-equivalent", "panic/"+fp, "re-export panicked: %s", msg)
		panic(abortRun{})
	}
	if a, b := canonSnapshot(r.cfg.Kind, snap), canonSnapshot(r.cfg.Kind, snap2); a != b {
		r.fail("twin", "C10.reexport-equivalent", r.cfg.Kind, "r%d: snapshot exported by the restored instance differs:\n  original: %s\n  restored: %s", p.idx, a, b)
	}
	r.twinCompare(p, r.observe(p))
}

func (r *run) twinCompare(p *replica, o *obs) {
	t := p.tw.rep
	to := r.observeInst(t)
	if o == nil {
		o = r.observe(p)
	}
	if d := o.diff(to); d != "" {
		r.fail("twin", "C10.twin-bisimilar", r.cfg.Kind+"/"+p.tw.mode+"/"+d, "r%d: instance restored from snapshot (%s path) differs in %s:\n  original: %s\n  restored: %s", p.idx, p.tw.mode, d, o.brief(), to.brief())
	}
	r.probe("twin-steps")
}

// twinRemote: the same remote operations go to the twin.
func (r *run) twinRemote(p *replica, batch []*model.Operation) {
	t := p.tw.rep
	exact := make([]*model.Operation, len(batch))
	for i, op := range batch {
		exact[i] = cloneOp(op)
	}
	var err error
	msg, fp := safely(func() {
		_, e := t.dt.ReceiveRemoteModelOperations(exact, true)
		if e != nil {
			err = e
		}
	})
	if msg != "" {
		r.fail("twin", "C10.twin-bisimilar", "remote-panic/"+fp, "restored instance panicked applying remote operations the original accepted: %s", msg)
		panic(abortRun{})
	}
	if err != nil {
		r.fail("twin", "C10.twin-bisimilar", "remote-error", "restored instance refused remote operations the original accepted: %v", err)
	}
}

func opsCanon(ops []*model.Operation) string {
	var out []interface{}
	for _, op := range ops {
		out = append(out, []interface{}{op.ID.GetCUID(), op.ID.GetSeq(), op.ID.GetLamport(), op.ID.GetEra(), op.OpType.String(), kernel.CanonBytes(bodyJSON(op))})
	}
	return kernel.Canon(out)
}

func bodyJSON(op *model.Operation) []byte {
	if json.Valid(op.Body) {
		return op.Body
	}
	b, _ := json.Marshal(string(op.Body))
	return b
}

// twinLocal: a successful local call of the original is mirrored on the twin.
// server mode: the twin receives the emitted operations as remote ones (as the server's copy would);
// rollback mode: the twin performs the same call and must emit identical operations.
func (r *run) twinLocal(p *replica, e Ev, fresh []*model.Operation) {
	if len(fresh) == 0 {
		return
	}
	if p.tw.mode == "server" {
		r.twinRemote(p, fresh)
		return
	}
	r.twinReplay(p, p.tw.rep, []Ev{e}, false, fresh)
}

// twinOutcome: a read, or a call the original refused, is made on the restored instance too: it has to
// end the same way (refused or not, the same value of the same Go types, no panic).
func (r *run) twinOutcome(p *replica, c *call, ret interface{}, err error) {
	t := p.tw.rep
	var ret2 interface{}
	var err2 error
	msg, fp := safely(func() { ret2, err2 = c.do(t.api) })
	r.probe("twin-outcome-compared")
	if msg != "" {
		r.fail("twin", "C10.twin-bisimilar", "outcome-panic/"+fp, "restored instance panicked on %s, which the original answered with (%s, err=%v): %s", c.name, kernel.Canon(ret), err, msg)
		panic(abortRun{})
	}
	if (err == nil) != (err2 == nil) {
		r.fail("twin", "C10.twin-bisimilar", r.cfg.Kind+"/outcome-differs", "%s: original err=%v, restored instance err=%v", c.name, err, err2)
		return
	}
	if err == nil && c.read {
		if a, b := kernel.Canon(ret), kernel.Canon(ret2); a != b {
			r.fail("twin", "C10.twin-bisimilar", r.cfg.Kind+"/read-differs", "%s: original returned %s, restored instance %s", c.name, a, b)
		} else if a, b := typeSig(ret), typeSig(ret2); a != b {
			r.fail("twin", "C10.twin-bisimilar", r.cfg.Kind+"/read-type-differs", "%s: original returned Go value of shape %s, restored instance %s (same JSON text %s)", c.name, a, b, kernel.Canon(ret))
		}
	}
}

// typeSig renders the Go types of a value read from a datatype (containers recursively).
func typeSig(v interface{}) string {
	switch x := v.(type) {
	case nil:
		return "nil"
	case map[string]interface{}:
		var sb strings.Builder
		sb.WriteString("{")
		for _, k := range kernel.SortedKeys(x) {
			sb.WriteString(k + ":" + typeSig(x[k]) + ",")
		}
		return sb.String() + "}"
	case []interface{}:
		var sb strings.Builder
		sb.WriteString("[")
		for _, e := range x {
			sb.WriteString(typeSig(e) + ",")
		}
		return sb.String() + "]"
	case orda.Document:
		return "Document(" + typeSig(x.GetValue()) + ")"
	case []orda.Document:
		var sb strings.Builder
		sb.WriteString("[]Document[")
		for _, e := range x {
			sb.WriteString(typeSig(e.GetValue()) + ",")
		}
		return sb.String() + "]"
	}
	return fmt.Sprintf("%T", v)
}

func (r *run) twinTx(p *replica, e Ev, fresh []*model.Operation) {
	if p.tw.mode == "server" {
		if len(fresh) > 0 {
			r.twinRemote(p, fresh)
		}
		return
	}
	r.twinReplay(p, p.tw.rep, []Ev{e}, true, fresh)
}

// twinReplay re-issues the same calls on the twin with the concrete arguments the original used.
func (r *run) twinReplay(p, t *replica, evs []Ev, isTx bool, fresh []*model.Operation) {
	// The concrete calls are reconstructed from the operations the original emitted: the
	// harness re-translates the event against the original's pre-state kept in p.pre.
	calls := p.lastCalls
	p.lastCalls = nil
	nOwnBefore := 0
	if pk := t.dt.CreatePushPullPack(); pk != nil {
		nOwnBefore = len(pk.Operations)
	}
	var err error
	msg, fp := safely(func() {
		if !isTx {
			for _, c := range calls {
				if _, e := c(t.api); e != nil {
					err = e
				}
			}
			return
		}
		failing := evs[0].Fail != 0
		body := func(a api) error {
			for _, c := range calls {
				_, _ = c(a)
			}
			if failing {
				return bodyErr{}
			}
			return nil
		}
		switch {
		case t.api.cnt != nil:
			_ = t.dt.(orda.Counter).Transaction("tx", func(c orda.CounterInTx) error { return body(api{cnt: c}) })
		case t.api.mp != nil:
			_ = t.dt.(orda.Map).Transaction("tx", func(c orda.MapInTx) error { return body(api{mp: c}) })
		case t.api.li != nil:
			_ = t.dt.(orda.List).Transaction("tx", func(c orda.ListInTx) error { return body(api{li: c}) })
		default:
			_ = t.dt.(orda.Document).Transaction("tx", func(c orda.DocumentInTx) error { return body(api{doc: c}) })
		}
	})
	if msg != "" {
		r.fail("twin", "C10.twin-bisimilar", "local-panic/"+fp, "restored instance panicked on a call the original accepted: %s", msg)
		panic(abortRun{})
	}
	if err != nil {
		r.fail("twin", "C10.twin-bisimilar", "local-error", "restored instance refused a call the original accepted: %v", err)
	}
	pk := t.dt.CreatePushPullPack()
	var mine []*model.Operation
	if len(pk.Operations) >= nOwnBefore {
		mine = pk.Operations[nOwnBefore:]
	}
	a, b := opsCanon(stripTag(fresh)), opsCanon(stripTag(mine))
	if a != b {
		r.fail("twin", "C10.twin-bisimilar", r.cfg.Kind+"/emitted-ops", "restored instance emitted different operations for the same call:\n  original: %s\n  restored: %s", a, b)
	}
	_ = fmt.Sprint
}

// stripTag blanks transaction tags (they carry the harness's own label).
func stripTag(ops []*model.Operation) []*model.Operation {
	out := make([]*model.Operation, len(ops))
	for i, op := range ops {
		if op.OpType == model.TypeOfOperation_TRANSACTION {
			c := cloneOp(op)
			var b txBody
			_ = json.Unmarshal(c.Body, &b)
			b.Tag = ""
			c.Body, _ = json.Marshal(b)
			out[i] = c
		} else {
			out[i] = op
		}
	}
	return out
}
