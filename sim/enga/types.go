// Package enga is Engine A: a replica simulator for the client library only.
// N real replicas of one datatype (real orda client code), one model log standing in
// for the server, a seeded plan of local calls / pushes / deliveries / late joins /
// snapshot twins / torn deliveries, and oracles evaluated after every step.
package enga

import (
	"encoding/json"
)

// Config is the swarm draw of one run.
type Config struct {
	Kind    string          `json:"kind"` // counter | map | list | doc
	N       int             `json:"n"`
	Oracles map[string]bool `json:"oracles"`
	Tags    bool            `json:"tags,omitempty"` // list/array values are unique tags (C04)
}

// Ev is one plan event. Every positional field is interpreted modulo the current size at
// execution time unless Raw is set, so any sub-list of a plan is still a valid plan.
type Ev struct {
	T    string        `json:"t"`            // local | tx | push | deliver | join | quiesce | twin | torn | patch
	R    int           `json:"r,omitempty"`  // replica
	Op   string        `json:"op,omitempty"` // operation name for local
	A    int           `json:"a,omitempty"`  // position
	B    int           `json:"b,omitempty"`  // count
	C    int           `json:"c,omitempty"`  // document container selector
	K    string        `json:"k,omitempty"`
	V    []interface{} `json:"v,omitempty"`
	D    int32         `json:"d,omitempty"`
	N    int           `json:"n,omitempty"`    // deliver: how many units
	M    string        `json:"m,omitempty"`    // mode (twin: server|rollback; torn: cut)
	Raw  bool          `json:"raw,omitempty"`  // take A/B literally (invalid-argument flavour)
	Via  int           `json:"via,omitempty"`  // doc: 0 chain of GetFromObject/GetFromArray, 1 GetByPath, 2 stale handle
	Fail int           `json:"fail,omitempty"` // tx: 0 commit, 1 return error at the end, 2 return error after A calls
	Body []Ev          `json:"body,omitempty"`
	S    uint64        `json:"s,omitempty"` // local seed for inner choices
}

func (e Ev) raw() json.RawMessage { b, _ := json.Marshal(e); return b }

func decodeEvents(raw []json.RawMessage) ([]Ev, error) {
	out := make([]Ev, len(raw))
	for i, r := range raw {
		if err := json.Unmarshal(r, &out[i]); err != nil {
			return nil, err
		}
	}
	return out, nil
}

func encodeEvents(evs []Ev) []json.RawMessage {
	out := make([]json.RawMessage, len(evs))
	for i, e := range evs {
		out[i] = e.raw()
	}
	return out
}
