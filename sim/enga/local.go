package enga

import (
	"fmt"
	"strconv"
	"strings"

	"github.com/orda-io/orda/client/pkg/errors"
	"github.com/orda-io/orda/client/pkg/orda"

	"verif/sim/kernel"
	"verif/sim/ref"
)

const provBase = uint64(1) << 62

type txState struct {
	lops  []*ref.LOp
	calls int
}

// call is one translated local call.
type call struct {
	name    string
	valid   bool   // the plain model accepts the arguments
	unspec  bool   // error-or-not is not specified; only "no visible change" is required
	read    bool   // a pure read
	wantRet string // canonical expected return value ("" → not compared)
	lop     *ref.LOp
	do      func(a api) (ret interface{}, err error)
	after   func() // extra checks after a successful mutation
	tagKind string
	tagPos  int
	tagN    int
	tagVals []interface{}
}

func hasNil(v interface{}) bool {
	switch x := v.(type) {
	case nil:
		return true
	case map[string]interface{}:
		for _, y := range x {
			if hasNil(y) {
				return true
			}
		}
	case []interface{}:
		for _, y := range x {
			if hasNil(y) {
				return true
			}
		}
	}
	return false
}

func anyNil(vs []interface{}) bool {
	for _, v := range vs {
		if v == nil {
			return true
		}
	}
	return false
}

func anyDeepNil(vs []interface{}) bool {
	for _, v := range vs {
		if hasNil(v) {
			return true
		}
	}
	return false
}

func mod(a, n int) int {
	if n <= 0 {
		return 0
	}
	a %= n
	if a < 0 {
		a += n
	}
	return a
}

func oerr(e errors.OrdaError) error {
	if e == nil {
		return nil
	}
	return e
}

func docsValues(ds []orda.Document) []interface{} {
	out := make([]interface{}, 0, len(ds))
	for _, d := range ds {
		if d == nil {
			out = append(out, nil)
		} else {
			out = append(out, d.GetValue())
		}
	}
	return out
}

// local performs one local call on p through a (the datatype itself, or its in-transaction view).
func (r *run) local(p *replica, a api, e Ev, tx *txState) {
	if tx != nil {
		// reads during the body go through the transaction's view
		saved := p.api
		p.api = a
		defer func() { p.api = saved }()
	}
	r.refresh(p)
	c := r.translate(p, a, e, tx)
	if c == nil {
		r.probe("local-skipped")
		return
	}
	r.trace.Str(c.name).Int(boolInt(c.valid))
	checkEffect := r.on("plain") || r.on("tx") || !c.valid || c.unspec
	var before *obs
	if checkEffect && !c.read {
		before = r.observe(p)
	}
	var ret interface{}
	var err error
	if p.tw != nil && p.tw.mode == "rollback" && !c.read {
		p.lastCalls = append(p.lastCalls, c.do)
	}
	msg, fp := safely(func() { ret, err = c.do(a) })
	r.logf("r%d %s valid=%v -> ret=%v err=%v panic=%q", p.idx, c.name, c.valid, kernel.Canon(ret), err, msg)
	if msg != "" {
		r.fail("plain", "C03.no-panic", fp, "r%d: %s panicked: %s", p.idx, c.name, msg)
		r.fail("nopanic", r.prop+".no-panic", fp, "r%d: %s panicked: %s", p.idx, c.name, msg)
		panic(abortRun{})
	}
	if p.tw != nil && p.tw.mode == "rollback" && tx == nil && (c.read || err != nil) {
		r.twinOutcome(p, c, ret, err)
	}
	if c.read {
		if c.valid && err != nil {
			r.fail("plain", "C03.return-matches-model", "read-error/"+e.Op, "r%d: %s returned error %v on valid arguments", p.idx, c.name, err)
		}
		if !c.valid && err == nil && !c.unspec {
			r.fail("plain", "C03.return-matches-model", "invalid-read-accepted/"+e.Op, "r%d: %s accepted invalid arguments and returned %s", p.idx, c.name, kernel.Canon(ret))
		}
		if c.valid && err == nil && c.wantRet != "" {
			if got := kernel.Canon(ret); got != c.wantRet {
				r.fail("plain", "C03.return-matches-model", "read-value/"+e.Op, "r%d: %s returned %s, plain structure gives %s", p.idx, c.name, got, c.wantRet)
				r.fail("ref", r.prop+".read-matches-reference", r.cfg.Kind+"/read/"+e.Op, "r%d: %s returned %s, reference gives %s", p.idx, c.name, got, c.wantRet)
			}
		}
		return
	}
	if tx != nil {
		tx.calls++
	}
	if err != nil || !c.valid {
		if err == nil && !c.unspec {
			r.fail("plain", "C03.return-matches-model", "invalid-accepted/"+e.Op, "r%d: %s accepted invalid arguments", p.idx, c.name)
			r.probe("invalid-accepted")
			panic(abortRun{}) // effect not modelled: stop this run without a verdict
		}
		if err != nil && c.valid && !c.unspec {
			r.fail("plain", "C03.return-matches-model", "valid-refused/"+e.Op, "r%d: %s refused valid arguments: %v", p.idx, c.name, err)
			r.probe("valid-refused")
		}
		if err != nil {
			r.probe("local-error")
			after := r.observe(p)
			if before == nil {
				before = after
			}
			if d := before.diff(after); d != "" {
				r.fail("plain", "C03.error-has-no-effect", e.Op+"/"+d, "r%d: %s returned error %v but changed %s:\n  before: %s\n  after : %s", p.idx, c.name, err, d, before.brief(), after.brief())
				r.fail("tx", "C09.rollback-exact", "failed-call-changed-state", "r%d: %s returned error %v but changed %s", p.idx, c.name, err, d)
				r.fail("ref", r.prop+".error-has-no-effect", r.cfg.Kind+"/"+e.Op, "r%d: %s returned error %v but changed %s", p.idx, c.name, err, d)
			}
			if tx == nil {
				r.collectOwn(p, []*ref.LOp{}, false)
			}
			return
		}
	}
	// success
	r.probe("local-ok")
	if c.wantRet != "" {
		if got := kernel.Canon(ret); got != c.wantRet {
			r.fail("plain", "C03.return-matches-model", "return-value/"+e.Op, "r%d: %s returned %s, plain structure gives %s", p.idx, c.name, got, c.wantRet)
		}
	}
	l := c.lop
	if l == nil {
		l = &ref.LOp{Kind: ref.KNop}
	}
	if tx != nil {
		k := provBase + uint64(len(tx.lops))
		l.Key = ref.OpKey{CUID: p.cuid, Seq: k}
		l.TS = ref.TS{Lamport: k, CUID: p.cuid}
		tx.lops = append(tx.lops, l)
		p.seen = append(p.seen, l)
		p.dirty = true
	} else {
		fresh := r.collectOwn(p, []*ref.LOp{l}, false)
		if p.tw != nil {
			r.twinLocal(p, e, fresh)
		}
	}
	if r.tags != nil && c.tagKind != "" {
		r.tags.localSeq(p.idx, l, c.tagKind, c.tagPos, c.tagVals, c.tagN)
	}
	if c.after != nil {
		c.after()
	}
}

func boolInt(b bool) int {
	if b {
		return 1
	}
	return 0
}

func (r *run) translate(p *replica, a api, e Ev, tx *txState) *call {
	switch r.cfg.Kind {
	case "counter":
		return r.trCounter(p, a, e)
	case "map":
		return r.trMap(p, a, e)
	case "list":
		return r.trList(p, a, e)
	}
	return r.trDoc(p, a, e, tx)
}

func (r *run) trCounter(p *replica, a api, e Ev) *call {
	switch e.Op {
	case "inc":
		want := p.refCnt + e.D
		c := &call{name: fmt.Sprintf("IncreaseBy(%d)", e.D), valid: true, wantRet: kernel.Canon(want),
			lop: &ref.LOp{Kind: ref.KInc, Delta: e.D}}
		c.do = func(a api) (interface{}, error) {
			if e.D == 1 && e.S%2 == 0 {
				v, err := a.cnt.Increase()
				return v, oerr(err)
			}
			v, err := a.cnt.IncreaseBy(e.D)
			return v, oerr(err)
		}
		return c
	case "get":
		return &call{name: "Get()", valid: true, read: true, wantRet: kernel.Canon(p.refCnt),
			do: func(a api) (interface{}, error) { return a.cnt.Get(), nil }}
	}
	return nil
}

func (r *run) trMap(p *replica, a api, e Ev) *call {
	old, had := p.refMap[e.K]
	switch e.Op {
	case "put":
		var v interface{}
		if len(e.V) > 0 {
			v = e.V[0]
		}
		c := &call{name: fmt.Sprintf("Put(%q,%s)", e.K, kernel.Canon(v)), valid: e.K != "" && v != nil,
			lop: &ref.LOp{Kind: ref.KPut, K: e.K, Val: v}}
		c.wantRet = kernel.Canon(old)
		c.do = func(a api) (interface{}, error) { x, err := a.mp.Put(e.K, v); return x, oerr(err) }
		return c
	case "rm":
		c := &call{name: fmt.Sprintf("Remove(%q)", e.K), valid: e.K != "" && had, unspec: e.K != "" && !had,
			lop: &ref.LOp{Kind: ref.KRm, K: e.K}, wantRet: kernel.Canon(old)}
		c.do = func(a api) (interface{}, error) { x, err := a.mp.Remove(e.K); return x, oerr(err) }
		return c
	case "get":
		return &call{name: fmt.Sprintf("Get(%q)", e.K), valid: true, read: true, wantRet: kernel.Canon(old),
			do: func(a api) (interface{}, error) { return a.mp.Get(e.K), nil }}
	case "size":
		return &call{name: "Size()", valid: true, read: true, wantRet: kernel.Canon(len(p.refMap)),
			do: func(a api) (interface{}, error) { return a.mp.Size(), nil }}
	}
	return nil
}

func slotIDs(s []ref.Slot) []ref.ElemID {
	out := make([]ref.ElemID, len(s))
	for i, x := range s {
		out[i] = x.ID
	}
	return out
}

// seqArgs interprets (A,B,len(V)) against a sequence of size sz.
func seqArgs(e Ev, sz int, op string) (pos, n int, vals []interface{}) {
	vals = e.V
	if e.Raw {
		return e.A, e.B, vals
	}
	switch op {
	case "ins":
		if len(vals) == 0 && e.B > 0 {
			// wide batch: B values named by their index (kept out of the plan file)
			vals = make([]interface{}, e.B)
			for i := range vals {
				vals[i] = float64(i)
			}
		}
		return mod(e.A, sz+1), 0, vals
	case "del", "getmany":
		if sz == 0 {
			return 0, 1, vals
		}
		pos = mod(e.A, sz)
		room := sz - pos
		if room > 4 {
			room = 4
		}
		return pos, 1 + mod(e.B, room), vals
	case "upd":
		if sz == 0 {
			return 0, 0, vals
		}
		pos = mod(e.A, sz)
		if len(vals) > sz-pos {
			vals = vals[:sz-pos]
		}
		return pos, len(vals), vals
	default: // get
		if sz == 0 {
			return 0, 1, vals
		}
		return mod(e.A, sz), 1, vals
	}
}

func (r *run) trList(p *replica, a api, e Ev) *call {
	seq := p.refList
	sz := len(seq)
	pos, n, vals := seqArgs(e, sz, e.Op)
	if !e.Raw && sz == 0 && (e.Op == "del" || e.Op == "upd" || e.Op == "get" || e.Op == "getmany") {
		return nil // nothing to address; the invalid flavour is generated explicitly (Raw)
	}
	switch e.Op {
	case "ins":
		ok := pos >= 0 && pos <= sz && !anyNil(vals)
		c := &call{name: fmt.Sprintf("InsertMany(%d,%s)", pos, kernel.Canon(vals)), valid: ok && len(vals) > 0, unspec: ok && len(vals) == 0}
		c.tagKind, c.tagPos, c.tagVals = "ins", pos, vals
		if len(vals) > 1<<16 {
			r.probe("batch>2^16")
		} else if len(vals) > 1<<15 {
			r.probe("batch>2^15")
		}
		if ok {
			anchor := ref.Head
			if pos > 0 {
				anchor = seq[pos-1].ID
			}
			c.lop = &ref.LOp{Kind: ref.KIns, Anchor: anchor, Vals: vals}
		}
		c.do = func(a api) (interface{}, error) {
			if len(vals) == 1 && e.S%2 == 0 {
				_, err := a.li.Insert(pos, vals[0])
				return nil, oerr(err)
			}
			_, err := a.li.InsertMany(pos, vals...)
			return nil, oerr(err)
		}
		c.after = func() {
			if len(vals) == 0 {
				return
			}
			got, err := a.li.GetMany(pos, len(vals))
			if err != nil || kernel.Canon(got) != kernel.Canon(vals) {
				r.fail("tags", "C04.local-insert-position", "list", "r%d: inserted %s at %d but GetMany(%d,%d) = %s (%v)", p.idx, kernel.Canon(vals), pos, pos, len(vals), kernel.Canon(got), err)
				r.fail("plain", "C03.return-matches-model", "insert-position", "r%d: inserted %s at %d but GetMany(%d,%d) = %s (%v)", p.idx, kernel.Canon(vals), pos, pos, len(vals), kernel.Canon(got), err)
			}
		}
		return c
	case "del":
		ok := pos >= 0 && n >= 1 && pos+n <= sz && pos < sz
		c := &call{name: fmt.Sprintf("DeleteMany(%d,%d)", pos, n), valid: ok}
		c.tagKind, c.tagPos, c.tagN = "del", pos, n
		if ok {
			c.lop = &ref.LOp{Kind: ref.KDel, Targets: slotIDs(seq[pos : pos+n])}
			c.wantRet = kernel.Canon(ref.SlotValues(seq[pos : pos+n]))
		}
		single := (n == 1 && e.S%2 == 0) || (e.Raw && e.S%2 == 0)
		if single {
			c.name = fmt.Sprintf("Delete(%d)", pos)
			c.tagN = 1
			c.valid = pos >= 0 && pos < sz
			if c.valid {
				c.lop = &ref.LOp{Kind: ref.KDel, Targets: slotIDs(seq[pos : pos+1])}
				c.wantRet = kernel.Canon(seq[pos].Val)
			}
			c.do = func(a api) (interface{}, error) { x, err := a.li.Delete(pos); return x, oerr(err) }
		} else {
			c.do = func(a api) (interface{}, error) { x, err := a.li.DeleteMany(pos, n); return x, oerr(err) }
		}
		return c
	case "upd":
		k := len(vals)
		ok := k >= 1 && pos >= 0 && pos+k <= sz && !anyNil(vals)
		c := &call{name: fmt.Sprintf("Update(%d,%s)", pos, kernel.Canon(vals)), valid: ok}
		c.tagKind, c.tagPos, c.tagVals = "upd", pos, vals
		if ok {
			c.lop = &ref.LOp{Kind: ref.KUpd, Targets: slotIDs(seq[pos : pos+k]), Vals: vals}
			c.wantRet = kernel.Canon(ref.SlotValues(seq[pos : pos+k]))
		}
		c.do = func(a api) (interface{}, error) { x, err := a.li.Update(pos, vals...); return x, oerr(err) }
		return c
	case "get":
		ok := pos >= 0 && pos < sz
		c := &call{name: fmt.Sprintf("Get(%d)", pos), valid: ok, read: true}
		if ok {
			c.wantRet = kernel.Canon(seq[pos].Val)
		}
		c.do = func(a api) (interface{}, error) { x, err := a.li.Get(pos); return x, oerr(err) }
		return c
	case "getmany":
		ok := pos >= 0 && n >= 1 && pos+n <= sz
		c := &call{name: fmt.Sprintf("GetMany(%d,%d)", pos, n), valid: ok, read: true}
		if ok {
			c.wantRet = kernel.Canon(ref.SlotValues(seq[pos : pos+n]))
		}
		c.do = func(a api) (interface{}, error) { x, err := a.li.GetMany(pos, n); return x, oerr(err) }
		return c
	case "size":
		return &call{name: "Size()", valid: true, read: true, wantRet: kernel.Canon(sz),
			do: func(a api) (interface{}, error) { return a.li.Size(), nil }}
	}
	return nil
}

// ---------------------------------------------------------------- document

func simpleKey(k string) bool {
	return k != "" && !strings.ContainsAny(k, "/~") && strings.TrimSpace(k) == k
}

// navigate obtains the child document for a reference path through the public API.
func navigate(root orda.DocumentInTx, path []ref.Step, via int) (orda.DocumentInTx, string, error) {
	if via == 1 {
		simple := true
		var sb strings.Builder
		for _, s := range path {
			if s.IsIdx {
				sb.WriteString("/" + strconv.Itoa(s.Idx))
			} else if simpleKey(s.Key) {
				if _, err := strconv.Atoi(s.Key); err == nil {
					simple = false
				}
				sb.WriteString("/" + s.Key)
			} else {
				simple = false
			}
		}
		if simple {
			d, err := root.GetByPath(sb.String())
			if err != nil {
				return nil, "GetByPath(" + sb.String() + ")", err
			}
			if d == nil {
				return nil, "GetByPath(" + sb.String() + ")", fmt.Errorf("nil document")
			}
			return d, "GetByPath(" + sb.String() + ")", nil
		}
	}
	cur := root
	desc := "root"
	for _, s := range path {
		var nx orda.Document
		var err errors.OrdaError
		if s.IsIdx {
			nx, err = cur.GetFromArray(s.Idx)
			desc += fmt.Sprintf("[%d]", s.Idx)
		} else {
			nx, err = cur.GetFromObject(s.Key)
			desc += fmt.Sprintf(".%q", s.Key)
		}
		if err != nil {
			return nil, desc, err
		}
		if nx == nil {
			return nil, desc, fmt.Errorf("nil document")
		}
		cur = nx
	}
	return cur, desc, nil
}

func (r *run) trDoc(p *replica, a api, e Ev, tx *txState) *call {
	reach := p.refDoc.Containers()
	var target orda.DocumentInTx
	var node *ref.DocNode // nil when the addressed container is no longer reachable
	var kind int
	var cont ref.ContID
	var where string
	var rpath []ref.Step
	if e.Via == 2 && tx == nil && len(p.handles) > 0 {
		h := p.handles[mod(e.C, len(p.handles))]
		target, cont, kind = h.doc, h.cont, h.kind
		node = p.refDoc.Find(h.cont)
		where = "handle(" + h.cont.String() + ")"
		if node == nil {
			r.probe("stale-handle")
		}
	} else {
		if !e.Raw {
			wantKind := ref.NObj
			switch e.Op {
			case "dins", "ddel", "dupd", "dgetmany":
				wantKind = ref.NArr
			case "dvalue":
				wantKind = -1
			}
			if wantKind >= 0 {
				var f []ref.Reach
				for _, x := range reach {
					if x.Node.Kind == wantKind {
						f = append(f, x)
					}
				}
				if len(f) == 0 {
					return nil
				}
				reach = f
			}
		}
		rc := reach[mod(e.C, len(reach))]
		rpath = rc.Path
		var d orda.DocumentInTx
		var err error
		var desc string
		msg, fp := safely(func() { d, desc, err = navigate(a.doc, rc.Path, e.Via) })
		if msg != "" {
			r.fail("plain", "C03.no-panic", fp, "r%d: navigating to %s panicked: %s", p.idx, desc, msg)
			r.fail("nopanic", r.prop+".no-panic", fp, "r%d: navigating to %s panicked: %s", p.idx, desc, msg)
			panic(abortRun{})
		}
		if err != nil {
			r.fail("ref", r.prop+".path-resolves", "doc/navigate", "r%d: %s failed (%v) although the reference has a container there", p.idx, desc, err)
			r.fail("plain", "C03.return-matches-model", "navigate", "r%d: %s failed (%v) although the plain structure has a container there", p.idx, desc, err)
			return nil
		}
		target, node, kind, cont, where = d, rc.Node, rc.Node.Kind, rc.Node.Cont, desc
	}
	live := node != nil
	origDoc := a.doc
	isHandle := e.Via == 2 && tx == nil && len(p.handles) > 0
	resolve := func(a2 api) (orda.DocumentInTx, error) {
		if isHandle || a2.doc == origDoc {
			return target, nil
		}
		d, _, err := navigate(a2.doc, rpath, e.Via)
		return d, err
	}
	tracked := !isHandle && len(rpath) == 1 && !rpath[0].IsIdx && rpath[0].Key == "arr"
	mk := func(name string, valid bool) *call {
		return &call{name: where + "." + name, valid: valid && live}
	}
	keep := func() {
		if tx == nil && e.S%3 == 0 && live {
			if d, ok := target.(orda.Document); ok && len(p.handles) < 8 {
				p.handles = append(p.handles, docHandle{doc: d, cont: cont, kind: kind})
			}
		}
	}
	switch e.Op {
	case "dput":
		var v interface{}
		if len(e.V) > 0 {
			v = e.V[0]
		}
		c := mk(fmt.Sprintf("PutToObject(%q,%s)", e.K, kernel.Canon(v)), kind == ref.NObj && !hasNil(v))
		c.lop = &ref.LOp{Kind: ref.KDPut, Cont: cont, K: e.K, Val: v}
		if live && kind == ref.NObj {
			if old, ok := node.Kids[e.K]; ok {
				c.wantRet = kernel.Canon(old.JSON())
			} else {
				c.wantRet = "null"
			}
		}
		c.do = func(a api) (interface{}, error) {
			t, e0 := resolve(a)
			if e0 != nil {
				return nil, e0
			}
			old, err := t.PutToObject(e.K, v)
			if err != nil {
				return nil, err
			}
			if old == nil {
				return nil, nil
			}
			return old.GetValue(), nil
		}
		c.after = keep
		return c
	case "drm":
		has := false
		if live && kind == ref.NObj {
			_, has = node.Kids[e.K]
		}
		c := mk(fmt.Sprintf("DeleteInObject(%q)", e.K), kind == ref.NObj && has)
		c.unspec = live && kind == ref.NObj && !has
		c.lop = &ref.LOp{Kind: ref.KDRm, Cont: cont, K: e.K}
		if has {
			c.wantRet = kernel.Canon(node.Kids[e.K].JSON())
		}
		c.do = func(a api) (interface{}, error) {
			t, e0 := resolve(a)
			if e0 != nil {
				return nil, e0
			}
			old, err := t.DeleteInObject(e.K)
			if err != nil {
				return nil, err
			}
			if old == nil {
				return nil, nil
			}
			return old.GetValue(), nil
		}
		return c
	case "dins", "ddel", "dupd", "dgetmany":
		sz := 0
		if live && kind == ref.NArr {
			sz = len(node.Elems)
		}
		op := map[string]string{"dins": "ins", "ddel": "del", "dupd": "upd", "dgetmany": "getmany"}[e.Op]
		pos, n, vals := seqArgs(e, sz, op)
		isArr := kind == ref.NArr
		if !e.Raw && live && isArr && sz == 0 && e.Op != "dins" {
			return nil
		}
		elemJSON := func(lo, hi int) []interface{} {
			out := []interface{}{}
			for i := lo; i < hi; i++ {
				out = append(out, node.Elems[i].JSON())
			}
			return out
		}
		switch e.Op {
		case "dins":
			ok := isArr && pos >= 0 && pos <= sz && !anyDeepNil(vals)
			c := mk(fmt.Sprintf("InsertToArray(%d,%s)", pos, kernel.Canon(vals)), ok && len(vals) > 0)
			c.unspec = ok && live && len(vals) == 0
			if tracked {
				c.tagKind, c.tagPos, c.tagVals = "ins", pos, vals
			}
			if ok && live {
				anchor := ref.Head
				if pos > 0 {
					anchor = node.ElemIDs[pos-1]
				}
				c.lop = &ref.LOp{Kind: ref.KDIns, Cont: cont, Anchor: anchor, Vals: vals}
			}
			c.do = func(a api) (interface{}, error) {
				t, e0 := resolve(a)
				if e0 != nil {
					return nil, e0
				}
				_, err := t.InsertToArray(pos, vals...)
				return nil, oerr(err)
			}
			c.after = func() {
				keep()
				if len(vals) == 0 {
					return
				}
				got, err := target.GetManyFromArray(pos, len(vals))
				if err != nil || kernel.Canon(docsValues(got)) != kernel.Canon(vals) {
					r.fail("tags", "C04.local-insert-position", "array", "r%d: inserted %s at %d of %s but reading back gives %s (%v)", p.idx, kernel.Canon(vals), pos, where, kernel.Canon(docsValues(got)), err)
					r.fail("plain", "C03.return-matches-model", "insert-position", "r%d: inserted %s at %d of %s but reading back gives %s (%v)", p.idx, kernel.Canon(vals), pos, where, kernel.Canon(docsValues(got)), err)
				}
			}
			return c
		case "ddel":
			ok := isArr && pos >= 0 && n >= 1 && pos+n <= sz && pos < sz
			single := (n == 1 && e.S%2 == 0) || (e.Raw && e.S%2 == 0)
			if single {
				n = 1
				ok = isArr && pos >= 0 && pos < sz
			}
			c := mk(fmt.Sprintf("DeleteManyInArray(%d,%d)", pos, n), ok)
			if tracked {
				c.tagKind, c.tagPos, c.tagN = "del", pos, n
			}
			if ok && live {
				c.lop = &ref.LOp{Kind: ref.KDDel, Cont: cont, Targets: append([]ref.ElemID(nil), node.ElemIDs[pos:pos+n]...)}
				c.wantRet = kernel.Canon(elemJSON(pos, pos+n))
			}
			if single {
				c.name = where + fmt.Sprintf(".DeleteInArray(%d)", pos)
				if ok && live {
					c.wantRet = kernel.Canon(node.Elems[pos].JSON())
				}
				c.do = func(a api) (interface{}, error) {
					t, e0 := resolve(a)
					if e0 != nil {
						return nil, e0
					}
					d, err := t.DeleteInArray(pos)
					if err != nil {
						return nil, err
					}
					if d == nil {
						return nil, nil
					}
					return d.GetValue(), nil
				}
			} else {
				c.do = func(a api) (interface{}, error) {
					t, e0 := resolve(a)
					if e0 != nil {
						return nil, e0
					}
					ds, err := t.DeleteManyInArray(pos, n)
					if err != nil {
						return nil, err
					}
					return docsValues(ds), nil
				}
			}
			return c
		case "dupd":
			k := len(vals)
			ok := isArr && k >= 1 && pos >= 0 && pos+k <= sz && !anyDeepNil(vals)
			c := mk(fmt.Sprintf("UpdateManyInArray(%d,%s)", pos, kernel.Canon(vals)), ok)
			if tracked {
				c.tagKind, c.tagPos, c.tagVals = "upd", pos, vals
			}
			if ok && live {
				c.lop = &ref.LOp{Kind: ref.KDUpd, Cont: cont, Targets: append([]ref.ElemID(nil), node.ElemIDs[pos:pos+k]...), Vals: vals}
				c.wantRet = kernel.Canon(elemJSON(pos, pos+k))
			}
			c.do = func(a api) (interface{}, error) {
				t, e0 := resolve(a)
				if e0 != nil {
					return nil, e0
				}
				ds, err := t.UpdateManyInArray(pos, vals...)
				if err != nil {
					return nil, err
				}
				return docsValues(ds), nil
			}
			c.after = keep
			return c
		default: // dgetmany
			ok := isArr && pos >= 0 && n >= 1 && pos+n <= sz
			c := mk(fmt.Sprintf("GetManyFromArray(%d,%d)", pos, n), ok)
			c.read = true
			c.valid = ok && live
			c.unspec = !live // reads on a deleted container are allowed to answer
			if ok && live {
				c.wantRet = kernel.Canon(elemJSON(pos, pos+n))
			}
			c.do = func(a api) (interface{}, error) {
				t, e0 := resolve(a)
				if e0 != nil {
					return nil, e0
				}
				ds, err := t.GetManyFromArray(pos, n)
				if err != nil {
					return nil, err
				}
				return docsValues(ds), nil
			}
			return c
		}
	case "dget":
		c := mk(fmt.Sprintf("GetFromObject(%q)", e.K), kind == ref.NObj)
		c.read = true
		c.unspec = !live
		if live && kind == ref.NObj {
			if ch, ok := node.Kids[e.K]; ok {
				c.wantRet = kernel.Canon(ch.JSON())
			} else {
				c.wantRet = "null"
			}
		}
		c.do = func(a api) (interface{}, error) {
			t, e0 := resolve(a)
			if e0 != nil {
				return nil, e0
			}
			d, err := t.GetFromObject(e.K)
			if err != nil {
				return nil, err
			}
			if d == nil {
				return nil, nil
			}
			return d.GetValue(), nil
		}
		return c
	case "dvalue":
		c := mk("GetValue()", true)
		c.read = true
		c.unspec = !live
		if live {
			c.wantRet = kernel.Canon(node.JSON())
		}
		c.do = func(a api) (interface{}, error) {
			t, e0 := resolve(a)
			if e0 != nil {
				return nil, e0
			}
			return t.GetValue(), nil
		}
		return c
	}
	return nil
}
