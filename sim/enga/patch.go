package enga

import (
	"encoding/json"
	"fmt"

	"github.com/orda-io/orda/client/pkg/model"
	"github.com/orda-io/orda/client/pkg/orda"

	"verif/sim/kernel"
	"verif/sim/ref"
)

var patchKeys = []string{"a", "b", "c", "k1", "x/y", "t~0", "arr", "n.m", "ü", "p~1q", "~01", "~10", "a~0~1b/", "/", "~"}

func MutateJSON(g *kernel.Rng, v interface{}, depth int) interface{} {
	switch x := v.(type) {
	case map[string]interface{}:
		out := map[string]interface{}{}
		for _, k := range kernel.SortedKeys(x) {
			switch g.Intn(6) {
			case 0: // drop
			case 1: // replace (possibly with another type)
				out[k] = GenValue(g, depth+1, 3)
			default:
				out[k] = MutateJSON(g, x[k], depth+1)
			}
		}
		for i := g.Intn(3); i > 0; i-- {
			out[patchKeys[g.Intn(len(patchKeys))]] = GenValue(g, depth+1, 3)
		}
		return out
	case []interface{}:
		out := []interface{}{}
		for _, e := range x {
			switch g.Intn(7) {
			case 0: // drop
			case 1:
				out = append(out, GenValue(g, depth+1, 3))
			case 2:
				out = append(out, GenValue(g, depth+1, 3), MutateJSON(g, e, depth+1))
			default:
				out = append(out, MutateJSON(g, e, depth+1))
			}
		}
		for i := g.Intn(3); i > 0; i-- {
			out = append(out, GenValue(g, depth+1, 3))
		}
		return out
	}
	if g.Chance(1, 3) {
		return GenValue(g, depth+1, 3)
	}
	return v
}

func (r *run) systemQuiet() bool {
	for _, q := range r.reps {
		if q.joined && (q.recv < len(r.log) || q.pushed < q.nOwn) {
			return false
		}
	}
	return true
}

// patch: PatchByJSON towards a target derived from the current value and the event's seed.
func (r *run) patch(p *replica, e Ev) {
	if p.api.doc == nil {
		return
	}
	doc := p.dt.(orda.Document)
	g := kernel.NewRng(e.S)
	cur := p.api.doc.GetValue()
	var curCopy interface{}
	_ = json.Unmarshal([]byte(kernel.Canon(cur)), &curCopy)
	var target interface{}
	if g.Chance(1, 6) {
		target = GenObject(g, 0, 3)
	} else {
		target = MutateJSON(g, curCopy, 0)
	}
	if _, ok := target.(map[string]interface{}); !ok {
		target = map[string]interface{}{}
	}
	tj := kernel.Canon(target)
	quiet := r.systemQuiet()
	before := r.observe(p)
	var patches int
	var err error
	msg, fp := safely(func() {
		ps, e2 := doc.PatchByJSON(tj)
		patches = len(ps)
		if e2 != nil {
			err = e2
		}
	})
	r.logf("r%d PatchByJSON(%s) from %s -> %d patches err=%v panic=%q", p.idx, tj, before.JSON, patches, err, msg)
	r.patched = true
	if msg != "" {
		r.fail("patch", "C19.no-panic", fp, "r%d: PatchByJSON(%s) on %s panicked: %s", p.idx, tj, before.JSON, msg)
		panic(abortRun{})
	}
	after := r.observe(p)
	fresh := r.collectPatchOps(p)
	if err != nil {
		// a patch that fails must leave the document unchanged and queue nothing
		if d := before.diff(after); d != "" {
			r.fail("patch", "C19.atomic-unit", "failed-patch-changed-state", "r%d: PatchByJSON(%s) returned %v but changed the document from %s to %s", p.idx, tj, err, before.JSON, after.JSON)
		}
		if len(fresh) > 0 {
			r.fail("patch", "C19.atomic-unit", "failed-patch-queued-ops", "r%d: PatchByJSON returned %v but queued %d operations", p.idx, err, len(fresh))
		}
		r.fail("patch", "C19.equals-target", "refused", "r%d: PatchByJSON(%s) on %s refused a null-free target: %v", p.idx, tj, before.JSON, err)
		return
	}
	if patches > 0 {
		r.probe("patch-nonempty")
	}
	if after.JSON != tj {
		r.fail("patch", "C19.equals-target", "value-differs", "r%d: after PatchByJSON the document is not the target\n  from  : %s\n  target: %s\n  got   : %s", p.idx, before.JSON, tj, after.JSON)
	}
	if len(fresh) > 1 {
		h := fresh[0]
		var b txBody
		_ = json.Unmarshal(h.Body, &b)
		if h.OpType != model.TypeOfOperation_TRANSACTION || int(b.NumOfOps) != len(fresh) {
			r.fail("patch", "C19.atomic-unit", "not-one-unit", "r%d: patch emitted %d operations that are not one announced unit (first is %v announcing %d)", p.idx, len(fresh), h.OpType, b.NumOfOps)
		}
	}
	if quiet && r.cfg.N > 1 {
		// nobody else acted: after delivery every replica must show the target
		r.quiesce()
		for _, q := range r.reps {
			if !q.joined {
				continue
			}
			o := r.observe(q)
			if o.JSON != tj {
				r.fail("patch", "C19.peers-converge", "peer-not-target", "r%d received the patch operations of r%d with nothing concurrent but shows %s instead of %s", q.idx, p.idx, o.JSON, tj)
			}
		}
		r.probe("patch-quiet")
	}
}

// collectPatchOps registers whatever the patch emitted (as opaque, id-consuming entries).
func (r *run) collectPatchOps(p *replica) []*model.Operation {
	pack := p.dt.CreatePushPullPack()
	n := len(pack.Operations) - p.nOwn
	if n <= 0 {
		return nil
	}
	isUnit := pack.Operations[p.nOwn].OpType == model.TypeOfOperation_TRANSACTION
	exp := make([]*ref.LOp, n)
	if isUnit && n > 1 {
		return r.collectOwn(p, exp[:n-1], true)
	}
	return r.collectOwn(p, exp, false)
}

var _ = fmt.Sprint
