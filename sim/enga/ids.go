package enga

import (
	"encoding/json"
	"fmt"

	"github.com/orda-io/orda/client/pkg/model"
)

type tsJSON = model.Timestamp

type listSnap struct {
	Nodes []struct {
		O *tsJSON
	}
}

type docSnap struct {
	NM []struct {
		C *tsJSON `json:"c"`
		A *struct {
			N [][2]*tsJSON `json:"n"`
		} `json:"a"`
	} `json:"nm"`
}

// checkIdentities: distinct element/node identities present in the replica (read from its own
// exported snapshot) must have distinct lookup keys (Timestamp.Hash()).
func (r *run) checkIdentities(p *replica) {
	if r.cfg.Kind != "list" && r.cfg.Kind != "doc" {
		return
	}
	var snap []byte
	msg, fp := safely(func() { _, snap, _ = p.dt.GetMetaAndSnapshot() })
	if msg != "" {
		r.fail("ids", "C15.identity-key-injective", "export-panic/"+fp, "export panicked: %s", msg)
		panic(abortRun{})
	}
	var ids []*tsJSON
	if r.cfg.Kind == "list" {
		var s listSnap
		if json.Unmarshal(snap, &s) != nil {
			return
		}
		for _, n := range s.Nodes {
			if n.O != nil {
				ids = append(ids, n.O)
			}
		}
	} else {
		var s docSnap
		if json.Unmarshal(snap, &s) != nil {
			return
		}
		for _, n := range s.NM {
			if n.C != nil {
				ids = append(ids, n.C)
			}
			if n.A != nil {
				for _, pair := range n.A.N {
					if pair[0] != nil {
						ids = append(ids, pair[0])
					}
					if pair[1] != nil {
						ids = append(ids, pair[1])
					}
				}
			}
		}
	}
	byHash := map[string]*tsJSON{}
	for _, t := range ids {
		h := t.Hash()
		if o, ok := byHash[h]; ok {
			if o.Era != t.Era || o.Lamport != t.Lamport || o.CUID != t.CUID || o.Delimiter != t.Delimiter {
				r.fail("ids", "C15.identity-key-injective", "hash-collision", "r%d: distinct identities %s and %s share lookup key %q", p.idx, o.ToString(), t.ToString(), h)
			}
		} else {
			byHash[h] = t
		}
	}
	if len(ids) >= 11 {
		r.probe("ids-batch>=11")
	}
}

// checkTotalOrder: Compare is a strict total order over the operation ids of the run.
func (r *run) checkTotalOrder() {
	var ids []*model.OperationID
	for _, le := range r.log {
		ids = append(ids, le.op.ID)
	}
	if len(ids) > 150 {
		ids = ids[len(ids)-150:]
	}
	for i := range ids {
		for j := range ids {
			c := ids[i].Compare(ids[j])
			same := ids[i].GetCUID() == ids[j].GetCUID() && ids[i].GetLamport() == ids[j].GetLamport() && ids[i].GetEra() == ids[j].GetEra()
			if (c == 0) != same {
				r.fail("ids", "C15.total-order-on-run", "zero-iff-identical", "Compare(%s,%s)=%d", ids[i].ToString(), ids[j].ToString(), c)
			}
			if d := ids[j].Compare(ids[i]); (c > 0) != (d < 0) || (c < 0) != (d > 0) {
				r.fail("ids", "C15.total-order-on-run", "antisymmetry", "Compare(%s,%s)=%d but reverse=%d", ids[i].ToString(), ids[j].ToString(), c, d)
			}
		}
	}
	// transitivity on sorted order: sort by Compare then verify every pair agrees with position
	n := len(ids)
	idx := make([]int, n)
	for i := range idx {
		idx[i] = i
	}
	for i := 1; i < n; i++ {
		for j := i; j > 0 && ids[idx[j]].Compare(ids[idx[j-1]]) < 0; j-- {
			idx[j], idx[j-1] = idx[j-1], idx[j]
		}
	}
	for i := 0; i < n; i++ {
		for j := i + 1; j < n; j++ {
			if ids[idx[i]].Compare(ids[idx[j]]) > 0 {
				r.fail("ids", "C15.total-order-on-run", "transitivity", "order of %s and %s contradicts the sorted sequence", ids[idx[i]].ToString(), ids[idx[j]].ToString())
			}
		}
	}
	_ = fmt.Sprint
}
