package enga

import (
	"encoding/json"
	"fmt"

	"verif/sim/kernel"
)

// ---------------------------------------------------------------- values

var strPool = []string{"x", "hello", "", "a/b", "t~1", "ü", "日本", "\u0000z", "q\"uote", "sp ace", "😀", "line\nbreak", "$set", "a.b",
	// text that looks like an escape sequence of some layer it travels through (JSON / HTML-safe JSON / BSON / regex)
	"<b>&amp;</b>", "C:\\u0026me", "\\u003cscript\\u003e", "back\\slash", "\\", "\u2028x", "%s %d", "\\n"}
var docKeys = []string{"a", "b", "c", "k1", "k2", "arr", "obj", "x/y", "t~0", "ü", "p~1q", "~01", "a~0~1b/", "\\u003e", "<k>&", ""}

func GenPrim(g *kernel.Rng) interface{} {
	switch g.Intn(10) {
	case 0, 1, 2:
		return float64(g.Range(-5, 50))
	case 3:
		// (the last two: integers beyond 2^53, the size of a UnixNano or of a 64-bit id)
		return []float64{0, -0.5, 1e15, 9007199254740992, 1e300, 3.25, -1e-7, 2147483648, 1790331072123456768, -4611686018427387904}[g.Intn(10)]
	case 4:
		return g.Chance(1, 2)
	case 5, 6:
		return strPool[g.Intn(len(strPool))]
	default:
		return fmt.Sprintf("s%d", g.Intn(1000))
	}
}

func GenObject(g *kernel.Rng, depth, maxDepth int) map[string]interface{} {
	m := map[string]interface{}{}
	for i := g.Intn(4); i > 0; i-- {
		m[docKeys[g.Intn(len(docKeys))]] = GenValue(g, depth+1, maxDepth)
	}
	return m
}

func GenArray(g *kernel.Rng, depth, maxDepth int) []interface{} {
	a := []interface{}{}
	for i := g.Intn(4); i > 0; i-- {
		a = append(a, GenValue(g, depth+1, maxDepth))
	}
	return a
}

// GenValue returns a JSON value without nulls.
func GenValue(g *kernel.Rng, depth, maxDepth int) interface{} {
	if depth >= maxDepth {
		return GenPrim(g)
	}
	switch g.Intn(10) {
	case 0, 1:
		return GenObject(g, depth, maxDepth)
	case 2, 3:
		return GenArray(g, depth, maxDepth)
	}
	return GenPrim(g)
}

// withNil plants a null somewhere in v (invalid-argument flavour).
func withNil(g *kernel.Rng, v interface{}) interface{} {
	switch x := v.(type) {
	case map[string]interface{}:
		x["nil"] = nil
		return x
	case []interface{}:
		return append(x, nil)
	}
	return nil
}

// ---------------------------------------------------------------- plans

type genCtx struct {
	g       *kernel.Rng
	prop    string
	kind    string
	n       int
	tagSeq  int
	keys    []string
	hot     int // positions are drawn from 0..hot most of the time
	maxB    int // batch ceiling
	invalid int // per-mille of invalid-argument calls
	opW     map[string]int
	depth   int
}

func (c *genCtx) tag() string { c.tagSeq++; return fmt.Sprintf("t%d", c.tagSeq) }

func (c *genCtx) pos() int {
	if c.g.Chance(3, 4) {
		return c.g.Intn(c.hot + 1)
	}
	return c.g.Intn(40)
}

func (c *genCtx) vals(n int, tags bool) []interface{} {
	out := make([]interface{}, n)
	for i := range out {
		if tags {
			out[i] = c.tag()
		} else if c.kind == "doc" {
			out[i] = GenValue(c.g, 0, c.depth)
		} else if c.kind == "map" && c.g.Chance(1, 8) {
			out[i] = GenValue(c.g, 0, 2)
		} else {
			out[i] = GenPrim(c.g)
		}
	}
	return out
}

func (c *genCtx) batch() int {
	switch {
	case c.g.Chance(6, 10):
		return 1
	case c.g.Chance(7, 10):
		return c.g.Range(2, 4)
	}
	return c.g.Range(5, c.maxB)
}

var opsOf = map[string][]string{
	"counter": {"inc", "get"},
	"map":     {"put", "rm", "get", "size"},
	"list":    {"ins", "del", "upd", "get", "getmany", "size"},
	"doc":     {"dput", "drm", "dins", "ddel", "dupd", "dget", "dgetmany", "dvalue"},
}
var baseW = map[string]int{"inc": 10, "get": 2, "put": 10, "rm": 5, "size": 1, "ins": 10, "del": 5, "upd": 5, "getmany": 1,
	"dput": 10, "drm": 4, "dins": 8, "ddel": 4, "dupd": 4, "dget": 1, "dgetmany": 1, "dvalue": 1}

func (c *genCtx) localEv(r int, tags bool) Ev {
	ops := opsOf[c.kind]
	w := make([]int, len(ops))
	for i, o := range ops {
		w[i] = c.opW[o]
	}
	op := ops[c.g.Pick(w)]
	e := Ev{T: "local", R: r, Op: op, S: c.g.U64() % 1000}
	bad := c.invalid > 0 && c.g.Intn(1000) < c.invalid
	switch op {
	case "inc":
		switch c.g.Intn(8) {
		case 0:
			e.D = 2147483647
		case 1:
			e.D = -2147483648
		case 2:
			e.D = 1
		default:
			e.D = int32(c.g.Range(-1000, 1000))
		}
	case "put", "dput":
		e.K = c.keys[c.g.Intn(len(c.keys))]
		e.V = c.vals(1, false)
		e.C = c.g.Intn(12)
		if bad {
			switch c.g.Intn(3) {
			case 0:
				if op == "put" {
					e.K = ""
				} else {
					e.V = []interface{}{nil}
				}
			case 1:
				e.V = []interface{}{nil}
			default:
				if op == "dput" {
					e.V = []interface{}{withNil(c.g, GenValue(c.g, 0, 2))}
				} else {
					e.V = []interface{}{nil}
				}
			}
		}
	case "rm", "drm", "get", "dget":
		e.K = c.keys[c.g.Intn(len(c.keys))]
		e.C = c.g.Intn(12)
		if bad && op == "rm" {
			e.K = ""
		}
		if op == "get" && c.kind == "list" {
			e.A = c.pos()
		}
	case "ins", "dins":
		e.A = c.pos()
		e.C = c.g.Intn(12)
		e.V = c.vals(c.batch(), tags)
		if bad {
			switch c.g.Intn(4) {
			case 0:
				e.Raw, e.A = true, -1-c.g.Intn(3)
			case 1:
				e.Raw, e.A = true, 1000+c.g.Intn(5)
			case 2:
				e.V[c.g.Intn(len(e.V))] = nil
			default:
				e.V = []interface{}{}
			}
		}
	case "del", "ddel", "getmany", "dgetmany":
		e.A = c.pos()
		e.B = c.g.Intn(4)
		e.C = c.g.Intn(12)
		if bad {
			e.Raw = true
			switch c.g.Intn(4) {
			case 0:
				e.A, e.B = -1, 1
			case 1:
				e.A, e.B = c.g.Intn(3), 0
			case 2:
				e.A, e.B = c.g.Intn(3), 1000
			default:
				e.A, e.B = 1000, 1
			}
		}
	case "upd", "dupd":
		e.A = c.pos()
		e.C = c.g.Intn(12)
		e.V = c.vals(c.g.Range(1, 3), tags)
		if bad {
			switch c.g.Intn(3) {
			case 0:
				e.Raw, e.A = true, 1000
			case 1:
				e.V[0] = nil
			default:
				e.Raw, e.A = true, -2
			}
		}
	}
	if c.kind == "doc" {
		switch {
		case c.g.Chance(1, 5):
			e.Via = 1
		case (c.prop == "C03" || c.prop == "C09") && c.g.Chance(1, 6):
			e.Via = 2
		}
	}
	return e
}

func swarmWeights(g *kernel.Rng, kind string) map[string]int {
	w := map[string]int{}
	for _, o := range opsOf[kind] {
		w[o] = baseW[o]
		if g.Chance(1, 5) && o != "ins" && o != "put" && o != "inc" && o != "dput" && o != "dins" {
			w[o] = 0 // swarm: this run does without this kind of call
		}
		if g.Chance(1, 5) {
			w[o] *= 3
		}
	}
	return w
}

// Gen derives the plan of run `seed` for a property and tier.
func Gen(prop, tier string, seed uint64) *kernel.Plan {
	g := kernel.NewRng(seed).Derive("plan")
	thorough := tier == "thorough"
	if w := kernel.NewRng(seed).Derive("wide"); prop == "C15" && w.Chance(1, wideEvery) {
		return genWide(w, prop, seed, thorough)
	}
	kinds := []string{"counter", "map", "list", "doc"}
	kw := []int{1, 3, 4, 5}
	switch prop {
	case "C04":
		kw = []int{0, 0, 3, 2}
	case "C19":
		kw = []int{0, 0, 0, 1}
	case "C15":
		kw = []int{1, 2, 5, 5}
	case "C10":
		kw = []int{1, 2, 4, 5}
	}
	kind := kinds[g.Pick(kw)]
	n := g.Range(2, 3)
	if thorough {
		n = g.Range(2, 4)
	}
	if prop == "C03" {
		n = 1
	}
	if prop == "C19" && g.Chance(1, 4) {
		n = 1
	}
	c := &genCtx{g: g, prop: prop, kind: kind, n: n, hot: g.Range(0, 3), maxB: 15, depth: g.Range(1, 3), opW: swarmWeights(g, kind)}
	nk := g.Range(3, 5)
	if prop == "C02" {
		nk = g.Range(1, 2)
		c.hot = g.Range(0, 1)
	}
	pool := []string{"k1", "k2", "a", "b", "arr", "x/y", "ü", "t~0", "p~1q", "~01"}
	for i := 0; i < nk; i++ {
		c.keys = append(c.keys, pool[g.Intn(len(pool))])
	}
	if prop == "C15" || prop == "C10" {
		c.maxB = 30
	}
	switch prop {
	case "C03":
		c.invalid = 200
	case "C09":
		c.invalid = 120
	case "C15":
		c.invalid = 80
	case "C10":
		c.invalid = 80 // refused calls are mirrored on the restored instance, too
	}
	cfg := Config{Kind: kind, N: n, Oracles: map[string]bool{"nopanic": true}}
	tags := false
	switch prop {
	case "C01":
		cfg.Oracles["conv"], cfg.Oracles["ref"] = true, true
	case "C02":
		cfg.Oracles["ref"] = true
	case "C03":
		cfg.Oracles["plain"], cfg.Oracles["ref"] = true, true
	case "C04":
		cfg.Oracles["tags"] = true
		cfg.Tags, tags = true, true
	case "C09":
		cfg.Oracles["tx"], cfg.Oracles["ref"] = true, true // remote-all / remote-none are decided against the reference of the operations seen
	case "C10":
		cfg.Oracles["twin"] = true
	case "C15":
		cfg.Oracles["ids"] = true
	case "C19":
		cfg.Oracles["patch"], cfg.Oracles["conv"] = true, true
	}
	nev := g.Range(20, 60)
	if thorough {
		nev = g.Range(30, 200)
	}
	if prop == "C15" && thorough {
		nev = g.Range(100, 400)
	}
	var evs []Ev
	// event-type weights (swarm-varied)
	wLocal, wTx, wPush, wDeliver, wQuiesce := 50, 6, 8+g.Intn(8), 10+g.Intn(12), 2
	if prop == "C02" { // long unseen windows
		wPush, wDeliver = 3+g.Intn(4), 3+g.Intn(6)
	}
	if prop == "C09" {
		wTx = 25
	}
	if kind == "doc" && tags {
		// the tracked array exists before anybody joins
		evs = append(evs, Ev{T: "local", R: 0, Op: "dput", K: "arr", V: []interface{}{[]interface{}{}}, C: 0}, Ev{T: "push", R: 0})
		c.opW = map[string]int{"dins": 10, "ddel": 5, "dupd": 4}
	}
	joinAt := map[int]int{}
	for r := 1; r < n; r++ {
		if g.Chance(2, 3) {
			joinAt[r] = g.Intn(4)
		} else {
			joinAt[r] = g.Intn(nev) // late subscriber
		}
	}
	wTwin, wTorn, wPatch := 0, 0, 0
	if prop == "C10" {
		wTwin = 5
	}
	if prop == "C09" {
		wTorn = 6
	}
	if prop == "C19" {
		wPatch = 12
	}
	for i := 0; i < nev; i++ {
		for r := 1; r < n; r++ {
			if at, ok := joinAt[r]; ok && at == i {
				evs = append(evs, Ev{T: "join", R: r})
			}
		}
		r := g.Intn(n)
		switch g.Pick([]int{wLocal, wTx, wPush, wDeliver, wQuiesce, wTwin, wTorn, wPatch}) {
		case 0:
			e := c.localEv(r, tags)
			if kind == "doc" && tags {
				e.C = 1 // the tracked array is the only container besides root
				e.Via = 0
			}
			evs = append(evs, e)
		case 1:
			tx := Ev{T: "tx", R: r, S: g.U64() % 1000}
			for k := g.Range(0, 5); k > 0; k-- {
				b := c.localEv(r, tags)
				if kind == "doc" && tags {
					b.C, b.Via = 1, 0
				}
				if b.Via == 2 {
					b.Via = 0
				}
				tx.Body = append(tx.Body, b)
			}
			switch g.Intn(5) {
			case 0:
				tx.Fail = 1
			case 1:
				tx.Fail, tx.A = 2, g.Intn(6)
			}
			if prop == "C19" {
				tx.Fail = 0
			}
			evs = append(evs, tx)
		case 2:
			evs = append(evs, Ev{T: "push", R: r})
		case 3:
			evs = append(evs, Ev{T: "deliver", R: r, N: g.Range(1, 4)})
		case 4:
			evs = append(evs, Ev{T: "quiesce"})
		case 5:
			m := "server"
			if g.Chance(1, 2) {
				m = "rollback"
			}
			evs = append(evs, Ev{T: "twin", R: r, M: m})
		case 6:
			evs = append(evs, Ev{T: "torn", R: r, A: g.Intn(8)})
		case 7:
			evs = append(evs, Ev{T: "patch", R: r, S: g.U64()})
		}
	}
	if (prop == "C09" || prop == "C01" || prop == "C15") && (kind == "counter" || kind == "map") && g.Chance(1, 12) {
		// somewhere in the run one replica comes back from a long offline period
		at := g.Intn(len(evs) + 1)
		evs = append(evs[:at], append([]Ev{{T: "burst", R: g.Intn(n), N: g.Intn(40)}}, evs[at:]...)...)
	}
	cb, _ := json.Marshal(cfg)
	return &kernel.Plan{Engine: "A", Property: prop, Seed: seed, Config: cb, Events: encodeEvents(evs)}
}

// wideEvery: one C15 plan in so many is a wide-batch plan.
const wideEvery = 600

// genWide: a List on which one call creates more elements than fit a 16-bit field (element
// identities are (operation timestamp, index in the batch); nothing in the statement bounds the
// index), followed by the next operations of the same and of another replica, whose timestamps
// are the neighbours of the batch's. Oracles: identities + reference + no-panic.
func genWide(g *kernel.Rng, prop string, seed uint64, thorough bool) *kernel.Plan {
	cfg := Config{Kind: "list", N: 2, Oracles: map[string]bool{"nopanic": true, "ids": true, "ref": true}}
	c := &genCtx{g: g, prop: prop, kind: "list", n: 2, hot: g.Range(0, 3), maxB: 4, depth: 1, keys: []string{"k1"},
		opW: map[string]int{"ins": 10, "del": 4, "upd": 4, "get": 1, "getmany": 1, "size": 1}}
	var evs []Ev
	pre := g.Range(0, 3) // the batch is not always the first operation
	for i := 0; i < pre; i++ {
		evs = append(evs, c.localEv(0, false))
	}
	width := 1<<16 + g.Range(1, 40)
	if g.Chance(1, 4) {
		width = 1<<15 + g.Range(1, 40)
	}
	evs = append(evs, Ev{T: "local", R: 0, Op: "ins", A: c.pos(), B: width, S: 1})
	evs = append(evs, Ev{T: "join", R: 1})
	far := func(r int) Ev { // a call that addresses the far end of the batch
		e := c.localEv(r, false)
		if e.Op == "ins" || e.Op == "del" || e.Op == "upd" || e.Op == "get" {
			e.A = width - g.Range(0, 60)
			if g.Chance(1, 2) {
				e.A = 1<<16 - g.Range(-3, 3)
			}
		}
		return e
	}
	k := g.Range(3, 6)
	if thorough {
		k = g.Range(3, 10)
	}
	for i := 0; i < k; i++ {
		r := g.Intn(2)
		switch g.Intn(6) {
		case 0:
			evs = append(evs, Ev{T: "push", R: r})
		case 1:
			evs = append(evs, Ev{T: "deliver", R: r, N: g.Range(1, 4)})
		case 2, 3:
			evs = append(evs, far(r))
		default:
			evs = append(evs, c.localEv(r, false))
		}
	}
	evs = append(evs, Ev{T: "quiesce"})
	cb, _ := json.Marshal(cfg)
	return &kernel.Plan{Engine: "A", Property: prop, Seed: seed, Config: cb, Events: encodeEvents(evs)}
}
