package enga

import (
	"encoding/json"
	"fmt"

	"github.com/orda-io/orda/client/pkg/model"
	"github.com/orda-io/orda/client/pkg/orda"

	"verif/sim/kernel"
	"verif/sim/ref"
)

type bodyErr struct{}

func (bodyErr) Error() string { return "body says no" }

func remapElem(e *ref.ElemID, m map[ref.OpKey]ref.OpKey) {
	if n, ok := m[e.Op]; ok {
		e.Op = n
	}
}

// remap rewrites provisional keys inside a logical op once real ids are known.
func remap(l *ref.LOp, m map[ref.OpKey]ref.OpKey) {
	remapElem(&l.Anchor, m)
	for i := range l.Targets {
		remapElem(&l.Targets[i], m)
	}
	if n, ok := m[l.Cont.Op]; ok && !l.Cont.Root {
		l.Cont.Op = n
	}
}

// tx runs a transaction whose body is e.Body; e.Fail selects how the body ends.
func (r *run) tx(p *replica, e Ev) {
	r.refresh(p)
	before := r.observe(p)
	hBefore := r.handleObs(p)
	seenLen := len(p.seen)
	st := &txState{}
	wantErr := e.Fail != 0
	failAfter := -1
	if e.Fail == 2 {
		failAfter = mod(e.A, len(e.Body)+1)
	}
	body := func(a api) error {
		for i, be := range e.Body {
			if i == failAfter {
				return bodyErr{}
			}
			if be.T != "local" {
				continue
			}
			r.local(p, a, be, st)
		}
		if wantErr {
			return bodyErr{}
		}
		return nil
	}
	var err error
	tag := fmt.Sprintf("tx%d", r.step)
	msg, fp := safely(func() {
		switch {
		case p.api.cnt != nil:
			err = p.dt.(orda.Counter).Transaction(tag, func(c orda.CounterInTx) error { return body(api{cnt: c}) })
		case p.api.mp != nil:
			err = p.dt.(orda.Map).Transaction(tag, func(c orda.MapInTx) error { return body(api{mp: c}) })
		case p.api.li != nil:
			err = p.dt.(orda.List).Transaction(tag, func(c orda.ListInTx) error { return body(api{li: c}) })
		default:
			err = p.dt.(orda.Document).Transaction(tag, func(c orda.DocumentInTx) error { return body(api{doc: c}) })
		}
	})
	if msg != "" {
		r.fail("tx", "C09.no-panic", fp, "r%d: Transaction panicked: %s", p.idx, msg)
		r.fail("plain", "C03.no-panic", fp, "r%d: Transaction panicked: %s", p.idx, msg)
		r.fail("nopanic", r.prop+".no-panic", fp, "r%d: Transaction panicked: %s", p.idx, msg)
		panic(abortRun{})
	}
	// drop the provisional entries; the real ones are added by collectOwn
	p.seen = p.seen[:seenLen]
	p.dirty = true
	if wantErr {
		r.probe("tx-rollback")
		if err == nil {
			r.fail("tx", "C09.rollback-exact", "error-swallowed", "r%d: body returned an error but Transaction returned nil", p.idx)
		}
		after := r.observe(p)
		if d := before.diff(after); d != "" {
			r.fail("tx", "C09.rollback-exact", r.cfg.Kind+"/state-"+d, "r%d: failed transaction (%d calls) changed %s:\n  before: %s\n  after : %s", p.idx, st.calls, d, before.brief(), after.brief())
			r.fail("plain", "C03.error-has-no-effect", "tx/"+d, "r%d: failed transaction changed %s", p.idx, d)
			r.fail("ref", r.prop+".rollback-exact", r.cfg.Kind+"/"+d, "r%d: failed transaction changed %s", p.idx, d)
		}
		if hAfter := r.handleObs(p); hAfter != hBefore {
			r.fail("tx", "C09.rollback-exact", "child-document-view", "r%d: after a failed transaction, child documents obtained before it read differently:\n  before: %s\n  after : %s", p.idx, hBefore, hAfter)
			r.fail("plain", "C03.error-has-no-effect", "tx/child-document-view", "r%d: after a failed transaction, child documents obtained before it read differently:\n  before: %s\n  after : %s", p.idx, hBefore, hAfter)
		}
		r.collectOwn(p, []*ref.LOp{}, false) // nothing may have been queued
		if p.tw != nil {
			r.twinTx(p, e, nil)
		}
		return
	}
	r.probe("tx-commit")
	if err != nil {
		r.fail("tx", "C09.commit", "commit-error", "r%d: body returned nil but Transaction returned %v", p.idx, err)
	}
	if len(st.lops) == 0 {
		// an empty unit: header only; announced length 1
		fresh := r.collectOwnTxEmpty(p)
		if p.tw != nil {
			r.twinTx(p, e, fresh)
		}
		return
	}
	prov := make([]ref.OpKey, len(st.lops))
	for i, l := range st.lops {
		prov[i] = l.Key
	}
	fresh := r.collectOwn(p, st.lops, true)
	m := map[ref.OpKey]ref.OpKey{}
	for i, l := range st.lops {
		m[prov[i]] = l.Key
	}
	for _, l := range st.lops {
		remap(l, m)
	}
	p.dirty = true
	if p.tw != nil {
		r.twinTx(p, e, fresh)
	}
}

// collectOwnTxEmpty handles a committed transaction without successful calls.
func (r *run) collectOwnTxEmpty(p *replica) []*model.Operation {
	pack := p.dt.CreatePushPullPack()
	n := len(pack.Operations) - p.nOwn
	if n != 1 && n != 0 {
		r.fail("tx", "C09.unit-contiguous", "empty-unit", "r%d: empty transaction queued %d operations", p.idx, n)
	}
	exp := make([]*ref.LOp, n)
	fresh := r.collectOwn(p, exp, false)
	if n == 1 {
		r.checkUnit(p, fresh)
	}
	return fresh
}

type txBody struct {
	Tag      string
	NumOfOps int32
}

// checkUnit: a committed body is one contiguous unit that announces its own length.
func (r *run) checkUnit(p *replica, unit []*model.Operation) {
	if len(unit) == 0 {
		return
	}
	h := unit[0]
	if h.OpType != model.TypeOfOperation_TRANSACTION {
		r.fail("tx", "C09.unit-contiguous", "no-header", "r%d: committed unit starts with %v, not a transaction header", p.idx, h.OpType)
		return
	}
	var b txBody
	if err := json.Unmarshal(h.Body, &b); err != nil {
		r.fail("tx", "C09.unit-contiguous", "header-body", "r%d: header body %q does not decode: %v", p.idx, string(h.Body), err)
	}
	if int(b.NumOfOps) != len(unit) {
		r.fail("tx", "C09.unit-contiguous", "announced-length", "r%d: header announces %d operations, unit has %d", p.idx, b.NumOfOps, len(unit))
	}
	for i := 1; i < len(unit); i++ {
		if unit[i].ID.GetSeq() != unit[i-1].ID.GetSeq()+1 {
			r.fail("tx", "C09.unit-contiguous", "seq", "r%d: unit operation %d has seq %d after %d", p.idx, i, unit[i].ID.GetSeq(), unit[i-1].ID.GetSeq())
		}
		if unit[i].OpType == model.TypeOfOperation_TRANSACTION {
			r.fail("tx", "C09.unit-contiguous", "nested-header", "r%d: unit contains a second header at %d", p.idx, i)
		}
	}
}

// torn delivers an incomplete unit: the replica must apply none of it, report an error, not panic.
func (r *run) torn(p *replica, e Ev) {
	// find the next foreign transaction unit at or after p.recv; everything before it is delivered intact
	i := p.recv
	start, end := -1, -1
	for i < len(r.log) {
		le := r.log[i]
		j := i + 1
		if le.unit != 0 {
			for j < len(r.log) && r.log[j].unit == le.unit {
				j++
			}
			if le.from != p.idx && j-i >= 2 {
				start, end = i, j
				break
			}
		}
		i = j
	}
	if start < 0 {
		r.probe("torn-skipped")
		return
	}
	// deliver the intact prefix; with an odd A its last (up to three) units stay back and arrive in the
	// SAME delivery as the truncated unit - as one pull hands them over - so that the incomplete unit
	// is not at the start of what is received
	keep := 0
	if e.A%2 == 1 {
		keep = 1 + mod(e.A/2, 3)
	}
	var pre []*model.Operation
	var preL []*ref.LOp
	for p.recv < start {
		// foreign units between p.recv and start
		cnt := 0
		for i := p.recv; i < start; {
			j := i + 1
			if r.log[i].unit != 0 {
				for j < start && r.log[j].unit == r.log[i].unit {
					j++
				}
			}
			if r.log[i].from != p.idx {
				cnt++
			}
			i = j
		}
		if cnt <= keep {
			for i := p.recv; i < start; i++ {
				if r.log[i].from != p.idx {
					pre = append(pre, cloneOp(r.log[i].op))
					preL = append(preL, r.log[i].lop)
				}
			}
			p.recv = start
			break
		}
		r.deliver(p, 1, false)
		if p.recv > start {
			return // units were grouped differently; give up on this event
		}
	}
	before := r.observe(p)
	n := end - start
	cut := 1 + mod(e.A, n-1) // 1..n-1 operations of the unit arrive
	ops := append([]*model.Operation{}, pre...)
	for k := start; k < start+cut; k++ {
		ops = append(ops, cloneOp(r.log[k].op))
	}
	exact := make([]*model.Operation, len(ops))
	copy(exact, ops)
	var err error
	msg, fp := safely(func() {
		_, e2 := p.dt.ReceiveRemoteModelOperations(exact, true)
		if e2 != nil {
			err = e2
		}
	})
	for _, l := range preL {
		r.see(p, l)
	}
	if len(pre) > 0 {
		r.probe("torn-after-other-operations")
		if p.tw != nil {
			r.twinRemote(p, pre)
		}
	}
	r.probe("torn-delivered")
	r.res.Faults["truncated-unit"]++
	if msg != "" {
		r.fail("tx", "C09.remote-none", "panic/"+fp, "r%d: a unit announcing %d operations truncated to %d made the replica panic: %s", p.idx, n, cut, msg)
		panic(abortRun{})
	}
	after := r.observe(p)
	if len(pre) > 0 {
		// the operations in front of the unit are applied; that nothing of the unit is, is decided by the
		// reference comparison that follows every step (the unit's operations are not "seen")
		before = after
	}
	if d := before.diff(after); d != "" {
		r.fail("tx", "C09.remote-none", r.cfg.Kind+"/partial-apply", "r%d: truncated unit (%d of %d operations) changed %s:\n  before: %s\n  after : %s", p.idx, cut, n, d, before.brief(), after.brief())
	}
	if err == nil {
		r.fail("tx", "C09.remote-none", "no-error", "r%d: truncated unit (%d of %d operations) was accepted without error", p.idx, cut, n)
	}
	_ = kernel.Canon
}

// handleObs reads every child document the harness kept from earlier calls.
func (r *run) handleObs(p *replica) string {
	if len(p.handles) == 0 {
		return ""
	}
	var out []interface{}
	msg, fp := safely(func() {
		for _, h := range p.handles {
			out = append(out, []interface{}{h.cont.String(), h.doc.IsGarbage(), h.doc.GetValue()})
		}
	})
	if msg != "" {
		r.fail("nopanic", r.prop+".no-panic", fp, "r%d: reading a child document panicked: %s", p.idx, msg)
		panic(abortRun{})
	}
	return kernel.Canon(out)
}
