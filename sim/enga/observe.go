package enga

import (
	"fmt"
	"sort"
	"strings"

	"github.com/orda-io/orda/client/pkg/orda"

	"verif/sim/kernel"
	"verif/sim/ref"
)

// obs is what the public read API shows of one instance.
type obs struct {
	JSON  string // canonical ToJSON()
	Size  int
	Reads string // canonical element reads (Get / GetMany / per-path reads)
}

func (a *obs) diff(b *obs) string {
	switch {
	case a.JSON != b.JSON:
		return "json"
	case a.Size != b.Size:
		return "size"
	case a.Reads != b.Reads:
		return "reads"
	}
	return ""
}

func (a *obs) brief() string {
	s := fmt.Sprintf("size=%d json=%s", a.Size, a.JSON)
	if len(s) > 600 {
		s = s[:600] + "…"
	}
	return s
}

func (r *run) observe(p *replica) *obs { return r.observeInst(p) }

type toJSONer interface{ ToJSON() interface{} }

// observeInst reads the instance through p.api. Inside a transaction body p.api is the
// transaction's own view (reads through the outer object would wait for the transaction's lock).
func (r *run) observeInst(p *replica) *obs {
	o := &obs{}
	msg, fp := safely(func() {
		var src toJSONer = p.dt
		switch {
		case p.api.cnt != nil:
			src, _ = p.api.cnt.(toJSONer)
		case p.api.mp != nil:
			src, _ = p.api.mp.(toJSONer)
		case p.api.li != nil:
			src, _ = p.api.li.(toJSONer)
		case p.api.doc != nil:
			src, _ = p.api.doc.(toJSONer)
		}
		if src == nil {
			src = p.dt
		}
		o.JSON = kernel.Canon(src.ToJSON())
		switch {
		case p.api.cnt != nil:
			o.Size = 0
			o.Reads = fmt.Sprint(p.api.cnt.Get())
		case p.api.mp != nil:
			o.Size = p.api.mp.Size()
			var keys []string
			if m, ok := src.ToJSON().(map[string]interface{}); ok {
				keys = kernel.SortedKeys(m)
			}
			var sb strings.Builder
			for _, k := range keys {
				sb.WriteString(k + "=" + kernel.Canon(p.api.mp.Get(k)) + ";")
			}
			o.Reads = sb.String()
		case p.api.li != nil:
			o.Size = p.api.li.Size()
			if o.Size > 0 {
				vs, err := p.api.li.GetMany(0, o.Size)
				if err != nil {
					o.Reads = "GetMany error: " + err.Error()
				} else {
					o.Reads = kernel.Canon(vs)
					if o.Size > 4096 {
						// wide lists (C15 wide-batch plans): Get walks from the head, so reading
						// every index is quadratic; single reads are compared at both ends, around
						// the 2^15 and 2^16 marks and at a stride
						for _, i := range wideIndices(o.Size) {
							v, err := p.api.li.Get(i)
							if err != nil || i >= len(vs) || kernel.Canon(v) != kernel.Canon(vs[i]) {
								o.Reads += fmt.Sprintf(" / Get(%d):%s %v", i, kernel.Canon(v), err)
							}
						}
						break
					}
					var each []interface{}
					for i := 0; i < o.Size; i++ {
						v, err := p.api.li.Get(i)
						if err != nil {
							each = append(each, "Get error: "+err.Error())
						} else {
							each = append(each, v)
						}
					}
					if e := kernel.Canon(each); e != o.Reads {
						o.Reads += " / Get:" + e
					}
				}
			} else {
				o.Reads = "[]"
			}
		case p.api.doc != nil:
			o.JSON = kernel.Canon(p.api.doc.GetValue())
			o.Reads = docReads(p.api.doc)
			o.Size = strings.Count(o.Reads, "\n")
		}
	})
	if msg != "" {
		r.fail("nopanic", r.prop+".no-panic", fp, "r%d: panic while reading state: %s", p.idx, msg)
	}
	return o
}

// docReads walks the document through GetFromObject / GetFromArray only.
func docReads(d orda.DocumentInTx) string {
	var sb strings.Builder
	var walk func(x orda.DocumentInTx, path string, depth int)
	walk = func(x orda.DocumentInTx, path string, depth int) {
		if depth > 64 {
			return
		}
		switch x.GetTypeOfJSON() {
		case orda.TypeJSONObject:
			m, _ := x.GetValue().(map[string]interface{})
			keys := kernel.SortedKeys(m)
			fmt.Fprintf(&sb, "%s {%d}\n", path, len(keys))
			for _, k := range keys {
				c, err := x.GetFromObject(k)
				if err != nil || c == nil {
					fmt.Fprintf(&sb, "%s/%q !GetFromObject(%v,%v)\n", path, k, c, err)
					continue
				}
				walk(c, path+"/"+fmt.Sprintf("%q", k), depth+1)
			}
		case orda.TypeJSONArray:
			a, _ := x.GetValue().([]interface{})
			fmt.Fprintf(&sb, "%s [%d]\n", path, len(a))
			for i := range a {
				c, err := x.GetFromArray(i)
				if err != nil || c == nil {
					fmt.Fprintf(&sb, "%s/%d !GetFromArray(%v,%v)\n", path, i, c, err)
					continue
				}
				walk(c, fmt.Sprintf("%s/%d", path, i), depth+1)
			}
		default:
			fmt.Fprintf(&sb, "%s = %s\n", path, kernel.Canon(x.GetValue()))
		}
	}
	walk(d, "", 0)
	return sb.String()
}

// refDocReads renders the same walk from the reference tree.
func refDocReads(n *ref.DocNode) string {
	var sb strings.Builder
	var walk func(x *ref.DocNode, path string)
	walk = func(x *ref.DocNode, path string) {
		switch x.Kind {
		case ref.NObj:
			fmt.Fprintf(&sb, "%s {%d}\n", path, len(x.Keys))
			for _, k := range x.Keys {
				walk(x.Kids[k], path+"/"+fmt.Sprintf("%q", k))
			}
		case ref.NArr:
			fmt.Fprintf(&sb, "%s [%d]\n", path, len(x.Elems))
			for i, e := range x.Elems {
				walk(e, fmt.Sprintf("%s/%d", path, i))
			}
		default:
			fmt.Fprintf(&sb, "%s = %s\n", path, kernel.Canon(x.Val))
		}
	}
	walk(n, "")
	return sb.String()
}

// refresh recomputes the reference state of p from the set of operations it has seen.
func (r *run) refresh(p *replica) {
	if !p.dirty {
		return
	}
	p.dirty = false
	switch r.cfg.Kind {
	case "counter":
		p.refCnt = ref.EvalCounter(p.seen)
		p.refJSON = kernel.Canon(map[string]interface{}{"Counter": p.refCnt})
		p.refSize = 0
	case "map":
		p.refMap = ref.EvalMap(p.seen)
		p.refJSON = kernel.Canon(p.refMap)
		p.refSize = len(p.refMap)
	case "list":
		p.refList = ref.EvalList(p.seen)
		p.refJSON = kernel.Canon(map[string]interface{}{"List": ref.SlotValues(p.refList)})
		p.refSize = len(p.refList)
	default:
		p.refDoc = ref.EvalDoc(p.seen)
		p.refJSON = kernel.Canon(p.refDoc.JSON())
	}
}

func (r *run) refObs(p *replica) *obs {
	r.refresh(p)
	o := &obs{JSON: p.refJSON, Size: p.refSize}
	switch r.cfg.Kind {
	case "counter":
		o.Reads = fmt.Sprint(p.refCnt)
	case "map":
		var sb strings.Builder
		for _, k := range kernel.SortedKeys(p.refMap) {
			sb.WriteString(k + "=" + kernel.Canon(p.refMap[k]) + ";")
		}
		o.Reads = sb.String()
	case "list":
		if len(p.refList) == 0 {
			o.Reads = "[]"
		} else {
			o.Reads = kernel.Canon(ref.SlotValues(p.refList))
		}
	default:
		o.Reads = refDocReads(p.refDoc)
		o.Size = strings.Count(o.Reads, "\n")
	}
	return o
}

// compareRef is the tracks-reference oracle (C01) and the deciding oracle of C02.
func (r *run) compareRef(p *replica, o *obs, who string) {
	want := r.refObs(p)
	d := want.diff(o)
	if d == "" {
		return
	}
	name := who
	if name == "" {
		name = fmt.Sprintf("r%d", p.idx)
	}
	oracle := "C01.tracks-reference"
	if r.prop == "C02" {
		oracle = "C02." + map[string]string{"counter": "counter-sum-int32", "map": "winner-by-timestamp", "list": "siblings-newest-first-update-lww-delete-dominates", "doc": "document-outcome"}[r.cfg.Kind]
	} else if r.prop != "C01" {
		oracle = r.prop + ".tracks-reference"
	}
	r.fail("ref", oracle, r.cfg.Kind+"/"+d, "%s differs from the reference of the %d operations it has seen (%s):\n  impl: %s\n  ref : %s",
		name, len(p.seen), d, o.brief(), want.brief())
}

// afterStep runs the per-step oracles on the replica that just acted.
func (r *run) afterStep(p *replica) {
	if !p.joined {
		return
	}
	needObs := r.on("ref") || r.tags != nil || r.verbose || true
	var o *obs
	if needObs {
		o = r.observe(p)
		h := kernel.NewHasher().Int(p.idx).Str(o.JSON).Int(o.Size).Sum()
		r.slog.U64(h)
		r.states[kernel.HashString(o.JSON)] = true
		r.logf("r%d -> %s", p.idx, o.brief())
	}
	if r.on("ref") {
		r.compareRef(p, o, "")
	}
	if r.tags != nil {
		r.tags.check(r, p, o)
	}
	if r.on("ids") {
		r.checkIdentities(p)
	}
	if p.tw != nil {
		r.twinCompare(p, o)
	}
}

var _ = sort.Strings

// wideIndices: the indices at which a wide list is read one element at a time.
func wideIndices(sz int) []int {
	seen := map[int]bool{}
	var out []int
	add := func(i int) {
		if i >= 0 && i < sz && !seen[i] {
			seen[i] = true
			out = append(out, i)
		}
	}
	for d := 0; d < 8; d++ {
		add(d)
		add(sz - 1 - d)
		add(1<<15 - 4 + d)
		add(1<<16 - 4 + d)
	}
	for i := 0; i < sz; i += sz / 16 {
		add(i)
	}
	sort.Ints(out)
	return out
}
