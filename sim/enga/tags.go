package enga

import (
	"encoding/json"

	"verif/sim/ref"
)

// tagOracle decides C04 from the unique tags carried by elements, independently of the
// reference model: which slots must be present/absent on a replica follows from which
// insert/delete operations that replica has seen; relative order is a global relation
// fixed by the first observation of each pair.
type tagOracle struct {
	slotOf   map[string]int // tag → slot lineage
	nslots   int
	insSlots map[*ref.LOp][]int
	delSlots map[*ref.LOp][]int
	last     map[int][]string  // replica → last observed tag sequence
	prec     map[[2]int]bool   // (a,b): a was observed before b
	pending  map[int][]pendTag // ops issued in the current event per replica
}

type pendTag struct{}

func newTagOracle() *tagOracle {
	return &tagOracle{slotOf: map[string]int{}, insSlots: map[*ref.LOp][]int{}, delSlots: map[*ref.LOp][]int{},
		last: map[int][]string{}, prec: map[[2]int]bool{}}
}

// seqOf extracts the observed tag sequence of the tracked list/array.
func seqOf(kind string, js string) ([]string, bool) {
	var x interface{}
	if json.Unmarshal([]byte(js), &x) != nil {
		return nil, false
	}
	m, ok := x.(map[string]interface{})
	if !ok {
		return nil, false
	}
	var arr []interface{}
	if kind == "list" {
		arr, ok = m["List"].([]interface{})
	} else {
		arr, ok = m["arr"].([]interface{})
	}
	if !ok {
		return nil, false
	}
	out := make([]string, 0, len(arr))
	for _, v := range arr {
		s, ok := v.(string)
		if !ok {
			return nil, false
		}
		out = append(out, s)
	}
	return out, true
}

// localSeq records a successful local call using the issuer's previous observation.
func (t *tagOracle) localSeq(ridx int, l *ref.LOp, kind string, pos int, vals []interface{}, n int) {
	prev := t.last[ridx]
	switch kind {
	case "ins":
		var slots []int
		for _, v := range vals {
			s, _ := v.(string)
			t.nslots++
			t.slotOf[s] = t.nslots
			slots = append(slots, t.nslots)
		}
		t.insSlots[l] = slots
		nw := append([]string{}, prev[:min(pos, len(prev))]...)
		for _, v := range vals {
			s, _ := v.(string)
			nw = append(nw, s)
		}
		nw = append(nw, prev[min(pos, len(prev)):]...)
		t.last[ridx] = nw
	case "del":
		var slots []int
		for i := pos; i < pos+n && i < len(prev); i++ {
			slots = append(slots, t.slotOf[prev[i]])
		}
		t.delSlots[l] = slots
		if pos+n <= len(prev) {
			t.last[ridx] = append(append([]string{}, prev[:pos]...), prev[pos+n:]...)
		}
	case "upd":
		nw := append([]string{}, prev...)
		for i, v := range vals {
			s, _ := v.(string)
			if pos+i < len(prev) {
				t.slotOf[s] = t.slotOf[prev[pos+i]]
				nw[pos+i] = s
			}
		}
		t.last[ridx] = nw
	}
}

func min(a, b int) int {
	if a < b {
		return a
	}
	return b
}

func (t *tagOracle) check(r *run, p *replica, o *obs) {
	seq, ok := seqOf(r.cfg.Kind, o.JSON)
	if !ok {
		return // the tracked array is not there (e.g. overwritten): nothing to say
	}
	t.last[p.idx] = seq
	must := map[int]bool{}
	gone := map[int]bool{}
	for _, l := range p.seen {
		for _, s := range t.insSlots[l] {
			must[s] = true
		}
	}
	for _, l := range p.seen {
		for _, s := range t.delSlots[l] {
			gone[s] = true
		}
	}
	count := map[int]int{}
	slots := make([]int, len(seq))
	for i, tag := range seq {
		s, known := t.slotOf[tag]
		if !known {
			r.fail("tags", "C04.exactly-once", "unknown-element", "r%d shows element %q that nobody inserted", p.idx, tag)
			return
		}
		slots[i] = s
		count[s]++
		if count[s] > 1 {
			r.fail("tags", "C04.exactly-once", "duplicated", "r%d shows slot %d twice (%q): %v", p.idx, s, tag, seq)
		}
		if gone[s] {
			r.fail("tags", "C04.no-resurrection", "present-after-delete", "r%d shows %q although it has received the delete of that element: %v", p.idx, tag, seq)
		}
		if !must[s] {
			r.fail("tags", "C04.exactly-once", "before-insert", "r%d shows %q although it has not received its insert", p.idx, tag)
		}
	}
	for s := range must {
		if !gone[s] && count[s] == 0 {
			r.fail("tags", "C04.exactly-once", "lost", "r%d has received the insert of slot %d and no delete, but it is absent: %v", p.idx, s, seq)
		}
	}
	for i := 0; i < len(slots); i++ {
		for j := i + 1; j < len(slots); j++ {
			a, b := slots[i], slots[j]
			if t.prec[[2]int{b, a}] {
				r.fail("tags", "C04.order-stable", "order-flip", "r%d shows %q before %q; an earlier observation (some replica, some time) had them the other way round: %v", p.idx, seq[i], seq[j], seq)
			}
			t.prec[[2]int{a, b}] = true
		}
	}
}
