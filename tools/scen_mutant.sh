#!/bin/bash
# usage: tools/scen_mutant.sh <worktree> <mutant-no> <scenario.json>
# Runs a scenario demonstration against the unchanged tree (must pass) and against the worktree with the
# seeded change applied (must fail).
set -u
WT=$1; N=$2; SC=$3
git -C $WT checkout -q -- .
echo "## scenario WITHOUT the change (must pass):"; /verif/check --scenario $SC | tail -2
git -C $WT apply $WT/mutants/$N/patch.diff || { echo "PATCH DOES NOT APPLY"; exit 3; }
echo "## scenario WITH the change (must fail):"; VERIF_REPO=$WT /verif/check --scenario $SC | tail -14
git -C $WT checkout -q -- .
