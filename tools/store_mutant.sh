#!/bin/bash
# usage: tools/store_mutant.sh <worktree> <mutant-no> <seeded-id> <json-file-with-meta-fields>
# Stores a confirmed seeded change under /verif/seeded/<id>/ with a patch regenerated against /repo HEAD.
set -eu
WT=$1; N=$2; ID=$3; META=$4
M=$WT/mutants/$N
D=/verif/seeded/$ID
mkdir -p $D
git -C $WT checkout -q -- . ; git -C $WT clean -fdq client server 2>/dev/null || true
git -C $WT checkout -q --detach $(git -C /repo rev-parse HEAD)
git -C $WT apply $M/patch.diff 2>/dev/null || git -C $WT apply --3way $M/patch.diff
git -C $WT diff HEAD -- client server > $D/patch.diff
git -C $WT checkout -q -- . ; git -C $WT reset -q --hard
git -C /repo apply --check $D/patch.diff
cp $M/demo_test.go $D/demo_test.go.txt
cp $M/README.md $D/README.md
cp $META $D/meta.json
echo "stored $ID ($(wc -l < $D/patch.diff) patch lines)"
