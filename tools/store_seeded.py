#!/usr/bin/env python3
"""usage: store_seeded.py <id> <prop> <n> <change> <needs> <detected_by> <note> [scenario.json]
Stores a confirmed seeded change under /verif/seeded/<id>/ (patch regenerated against /repo HEAD)."""
import json,sys,subprocess,shutil,os
id,prop,n,change,needs,det,note=sys.argv[1:8]
scen=sys.argv[8] if len(sys.argv)>8 else None
conf="tools/try_mutant.sh: patch applies to the repository HEAD (hooks+fixes), client and server build, existing client unit tests all ok with the change, demonstration test passes without the change and fails with it"
if scen:
    conf="tools/try_mutant.sh: patch applies to the repository HEAD (hooks+fixes), client and server build, existing client unit tests all ok with the change. The author's demonstration (demo_test.go.txt) needs a MongoDB and could only be compiled; its scenario was ported to scenario.json (an engine-B plan with expectations about plain end-of-run observations, no oracle involved) and run with tools/scen_mutant.sh: passes on the unchanged tree, fails with the change"
meta={"property":prop,"change":change,"needs_to_manifest":needs,"author":"fresh sub-agent given only the property record and its own scratch worktree","confirmed":conf,"check_run":"VERIF_REPO=<worktree with patch> ./check %s quick"%prop,"detected_by":det,"note":note}
mf='/tmp/sa/meta-%s.json'%id
json.dump(meta,open(mf,'w'),indent=1)
subprocess.check_call(['/verif/tools/store_mutant.sh','/tmp/wt-'+prop,n,id,mf])
if scen: shutil.copy(scen,'/verif/seeded/%s/scenario.json'%id)
