#!/bin/bash
# usage: tools/replay_mutant.sh <worktree> <mutant-no> <replay.json>
# A replay file (a minimised plan written by a check) as the demonstration of a seeded change:
# replayed against the unchanged tree it must pass, against the worktree with the change it must
# report the violation.
set -u
WT=$1; N=$2; RF=$3
git -C $WT checkout -q -- . ; git -C $WT checkout -q --detach $(git -C /repo rev-parse HEAD) 2>/dev/null
echo "## replay WITHOUT the change (must pass):"; /verif/check --replay $RF 2>&1 | grep -a "VIOLATION\|no violation\|reproduced\|HARNESS" | head -3; echo "exit=${PIPESTATUS[0]}"
git -C $WT apply $WT/mutants/$N/patch.diff || { echo "PATCH DOES NOT APPLY"; exit 3; }
echo "## replay WITH the change (must report the violation):"; VERIF_REPO=$WT /verif/check --replay $RF 2>&1 | grep -a "VIOLATION\|no violation\|reproduced\|HARNESS" | head -3; echo "exit=${PIPESTATUS[0]}"
git -C $WT checkout -q -- . ; git -C $WT reset -q --hard 2>/dev/null
