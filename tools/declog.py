#!/usr/bin/env python3
"""Decode an engine-B verbose log (VERIF_NOCLIP=1): stored operations and datatype checkpoints.
usage: declog.py <log> [duid-substring]"""
import sys, re, base64
flt = sys.argv[2] if len(sys.argv) > 2 else ''
for l in open(sys.argv[1], errors='replace'):
    hdr = ' '.join(l[:48].split())
    if ' insert ' in l and '-_-Operations' in l:
        for m in re.finditer(r'"_id":"([^"]+)","body":\{"\$binary":\{"base64":"([^"]+)"\S*?"id":(\{[^}]*\}[^}]*\})', l):
            if flt in m.group(1):
                print(hdr, m.group(1), base64.b64decode(m.group(2))[:110], m.group(3)[:130])
    elif ' update ' in l and '-_-Datatypes' in l:
        m = re.search(r'"_id":"([^"]+)"', l)
        if m and flt in m.group(1):
            cps = re.findall(r'"([A-Za-z0-9_-]{16})":\{"at":\{[^}]*\},"cp":(\{[^}]*\})', l)
            e = re.search(r'"sseq":(\{[^}]*\})', l)
            f = re.search(r'fault="([^"]*)"', l)
            print(hdr, 'DT', m.group(1), cps, e.group(1) if e else '', 'fault=' + (f.group(1) if f else ''))
    elif ' delete ' in l and '-_-Operations' in l and flt in l:
        m = re.search(r'"q":(\{.*?\}\})', l)
        print(hdr, 'DEL', m.group(1) if m else '')
    elif ' db ' not in l and (flt == '' or True):
        if re.match(r'\s+\d{3} t=', l):
            print(l.rstrip()[:220])
