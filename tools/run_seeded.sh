#!/bin/bash
# usage: tools/run_seeded.sh <seeded-id> [property-to-check] [budget_s]
# Applies seeded/<id>/patch.diff to a scratch worktree of /repo, runs the quick check of the property named
# in meta.json's check_run (or the one given) against it, prints the verdict line, removes the worktree.
set -u
ID=$1; V=${VERIF_HOME:-/verif}
P=${2:-$(python3 -c "import json,re;m=json.load(open('$V/seeded/$ID/meta.json'));print(re.findall(r'check (C\d\d)',m['check_run'])[0])")}
B=${3:-40}
WT=$(mktemp -d /tmp/seeded-wt.XXXX); rmdir $WT
git -C /repo worktree add -q --detach $WT HEAD || exit 2
git -C $WT apply $V/seeded/$ID/patch.diff || { echo "$ID: PATCH DOES NOT APPLY"; git -C /repo worktree remove --force $WT; exit 3; }
OUT=$(mktemp -d /tmp/seeded-out.XXXX)
RES=$(VERIF_REPO=$WT VERIF_OUT=$OUT VERIF_BUDGET_S=$B $V/check $P quick 2>&1 | grep -a "violation class\|quick:\|HARNESS" | head -3 | cut -c1-160 | tr '\n' ';')
RC=0; echo "$RES" | grep -q "violation class" && RC=1
echo "$ID vs $P: $([ $RC = 1 ] && echo DETECTED || echo not-detected) :: $RES"
git -C /repo worktree remove --force $WT; rm -rf $OUT $V/bin/alt-$(echo "$WT" | md5sum | cut -c1-8)
