#!/bin/bash
# usage: tools/try_mutant.sh <worktree> <mutant-no> <property> [more properties...]
# Confirms a seeded change in its scratch worktree (applies, builds, existing client tests pass,
# demonstration fails with it and passes without it), then runs the given checks against that worktree.
set -u
WT=$1; N=$2; shift 2
M=$WT/mutants/$N
export GOFLAGS=-mod=mod GOPROXY=off GOSUMDB=off
V() { grep -a "^ok\|^FAIL\|^---\|^panic" | sort | uniq -c | sort -rn | head -${1:-8}; }
git -C $WT checkout -q -- . ; git -C $WT clean -fdq client server 2>/dev/null
git -C $WT checkout -q --detach $(git -C /repo rev-parse HEAD) 2>/dev/null
demo_dir=$(head -3 $M/demo_test.go | grep -o 'client/[a-zA-Z/_]*\|server/[a-zA-Z/_]*' | head -1)
[ -n "$demo_dir" ] || demo_dir=client/pkg/orda
echo "## demo dir: $demo_dir"
cp $M/demo_test.go $WT/$demo_dir/zz_mutant_demo_test.go
echo "## demo WITHOUT mutant (must pass):"
(cd $WT/$demo_dir && timeout 300 go test -vet=off -count=1 -run 'Mutant|Demo|Seeded|C[0-9][0-9]' . 2>&1 | V 4)
git -C $WT apply $M/patch.diff 2>/dev/null || git -C $WT apply --3way $M/patch.diff || { echo "PATCH DOES NOT APPLY"; exit 3; }
echo "## build with mutant:"; (cd $WT/client && go build ./... && cd $WT/server && go build ./... && echo build-ok)
echo "## demo WITH mutant (must fail):"
(cd $WT/$demo_dir && timeout 300 go test -vet=off -count=1 -run 'Mutant|Demo|Seeded|C[0-9][0-9]' . 2>&1 | V 6)
rm -f $WT/$demo_dir/zz_mutant_demo_test.go
# (a demonstration that imports something new makes go add lines to go.mod / go.sum under -mod=mod)
git -C $WT checkout -q -- server/go.mod server/go.sum client/go.mod client/go.sum 2>/dev/null
echo "## existing client tests with mutant (must be all ok):"
(cd $WT/client && timeout 600 go test -vet=off -count=1 ./... 2>&1 | grep -a "^ok\|^FAIL\|^--- FAIL" | grep -v "^ok" ; echo "(end of non-ok lines)")
for P in "$@"; do
  echo "## check $P against mutant:"
  OUT=$(mktemp -d /tmp/mutout.XXXX)
  VERIF_REPO=$WT VERIF_OUT=$OUT VERIF_BUDGET_S=${BUDGET:-40} ${VERIF_HOME:-/verif}/check $P quick > $OUT/check.log 2>&1; rc=$?
  cut -c1-400 $OUT/check.log | grep -a "VIOLATION\|violation class\|minimised\|runs (\|HARNESS" | head -8
  grep -a -A30 "HARNESS" $OUT/check.log | cut -c1-200 | head -40
  echo "exit=$rc"
  rm -rf $OUT/evidence; ls $OUT/replays/* 2>/dev/null | head -3
done
git -C $WT checkout -q -- . ; git -C $WT reset -q --hard 2>/dev/null
