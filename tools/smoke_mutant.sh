#!/bin/bash
# usage: tools/smoke_mutant.sh <worktree> <mutant-no> <property> [N] [BASE]
# Applies a seeded change in its scratch worktree and runs N quick-tier plans of <property> of the
# engine-B smoke loop (working tree of /verif/sim) against it; prints violation classes. For experiments.
set -u
WT=$1; M=$WT/mutants/$2; P=$3; N=${4:-200}; BASE=${5:-0}
export GOFLAGS=-mod=mod GOPROXY=off GOSUMDB=off GOTOOLCHAIN=local
SIM=$(cd $(dirname $0)/../sim && pwd)
git -C $WT checkout -q -- . ; git -C $WT checkout -q --detach $(git -C /repo rev-parse HEAD) 2>/dev/null
git -C $WT apply $M/patch.diff || { echo "PATCH DOES NOT APPLY"; exit 3; }
T=$(mktemp -d /tmp/smk.XXXX)
sed "s#=> /repo#=> $WT#" $SIM/go.mod > $T/go.mod; cp $SIM/go.sum $T/go.sum
(cd $SIM && go1.26.8 test -modfile=$T/go.mod -tags verif -c -o $T/engb.test ./engb/) || { echo BUILD FAILED; git -C $WT checkout -q -- .; exit 2; }
(cd $SIM/engb && P=$P N=$N BASE=$BASE ${ENVX:-} $T/engb.test -test.run TestSmokeB -test.timeout 0 2>&1 | grep -v "^goroutines" | cut -c1-${CLIP:-600} | tail -${TAIL:-12})
rm -rf $T
git -C $WT checkout -q -- . ; git -C $WT reset -q --hard 2>/dev/null
