#!/usr/bin/env python3
"""usage: tools/record_selftest.py <log of ./check --selftest runs> <verif commit the self-test ran at>
Records the last result per property in /verif/selftest.json (embedded into the evidence files as
coverage.determinism_selftest by the checks)."""
import json,re,sys,os,time
log,commit=sys.argv[1],sys.argv[2]
p='/verif/selftest.json'
st=json.load(open(p)) if os.path.exists(p) else {}
for l in open(log,errors='ignore'):
    m=re.match(r'selftest (C\d\d): (\d+) run indices x (\d+) processes \(GOMAXPROCS ([\d,]+)\); (\d+) indices diverged',l)
    if m:
        st[m.group(1)]={"run_indices":int(m.group(2)),"processes_per_index":int(m.group(3)),"gomaxprocs":[int(x) for x in m.group(4).split(',')],
                        "indices_with_differing_event_log_digests":int(m.group(5)),"verif_commit":commit,"recorded":time.strftime('%Y-%m-%d %H:%M')}
json.dump(st,open(p,'w'),indent=1,sort_keys=True)
print(len(st),"properties recorded")
