#!/usr/bin/env python3
"""Writes /verif/SENSITIVITY.md from seeded/*/meta.json."""
import json,glob,os
rows=[]
for d in sorted(glob.glob('/verif/seeded/*/')):
    m=json.load(open(d+'meta.json')); id=os.path.basename(d.rstrip('/'))
    rows.append((id,m))
out=["# Seeded changes and what catches them","",
"Every entry is a change to orda-io/orda that compiles, passes the 53 baseline tests and breaks one of the",
"given properties only when something specific lines up. All were written by fresh sub-agents that saw only the",
"property record and a scratch worktree of the repository (nothing from /verif); the later waves were also given the",
"one-line descriptions of the earlier changes, so as not to repeat them. Each was confirmed in a scratch worktree before it was kept",
"(`tools/try_mutant.sh`: patch applies to the current HEAD, both modules build, existing tests pass, the",
"demonstration passes without the change and fails with it; demonstrations that need a MongoDB were ported to",
"`scenario.json` and run with `./check --scenario`, see DESIGN.md 11.2, or - third wave - replaced by `replay.json`, a minimised plan",
"written by the detecting check: `tools/replay_mutant.sh` confirms that `./check --replay` passes on the unchanged tree and reports the violation with the change). `patch.diff` applies to /repo with",
"`git -C /repo apply`; the checks are run against a worktree through `VERIF_REPO=<dir> ./check <id> quick`.","",
"Summary: %d changes (six waves of sub-agents). Caught by the checks as they were when the change arrived: %d; missed first and caught after the machinery was extended (the extension is named in the last column): %d; break their property only through a dimension that belongs to another property's quantifier and are caught by that property's check: %d; NOT detected (reason in the last column): %d."%(
 len(rows), sum(1 for _,m in rows if m['note'].startswith('caught as built')), sum(1 for _,m in rows if m['note'].lower().startswith('missed')), sum(1 for _,m in rows if m['note'].startswith('not ') or m['note'].startswith('bonus')), sum(1 for _,m in rows if m['note'].startswith('NOT DETECTED'))),
"","| id | change | needs | detected by | history |","|----|--------|-------|-------------|---------|"]
for id,m in rows:
    f=lambda s:s.replace('|','\\|').replace('\n',' ')
    out.append("| %s | %s | %s | %s | %s |"%(id,f(m['change']),f(m['needs_to_manifest']),f(m['detected_by']),f(m['note'])))
out+=["","Regression after the last extensions (final tree, `tools/run_seeded.sh <id>`, 60 s budget): 25 stored changes re-run - the ones that",
"had needed an extension in waves 3-5 plus six older ones (C18-10 C18-12 C13-10 C13-11 C12-11 C12-12 C17-12 C06-13 C06-8 C07-9 C12-8 C12-9",
"C13-8 C14-7 C17-8 C18-7 C18-9 C05-8 C19-7 C11-2 C11-6 C16-2 C17-5 C18-1 C12-7): 25 of 25 detected by the check named in their meta.json.",
"Earlier the same day, before the fifth wave: C06-1, C08-4 (both rebased after a fix) and C05-1..C05-7: detected."]
out+=["","Reverting any `fix:` commit of /repo is a further mutant of the same kind; each was checked when the fix was made",
"(the check that found the defect is red without the fix and green with it, see DESIGN.md 11.3).",""]
open('/verif/SENSITIVITY.md','w').write("\n".join(out))
print(len(rows),"rows")
